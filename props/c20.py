"""C20 - serialized disciplines, processes and problems behave like the originals (engine E1, direct enumeration).

A *history* is a word over {E1 = execute(v1), E2 = execute(v2), L1 = linearize(v1), RP = pickle.loads(pickle.dumps),
RF = to_pickle/from_pickle}.  A round-trip appends a restored twin of the youngest object; every later operation is
applied to *all* twins (the original and every restored object) with private copies of the inputs, and its outcome on
each twin is compared with its outcome on the original.  All histories of the bound are executed on the real classes
(no state merging: the number of distinct canonical states reached is measured and reported).

Part D  every class of the discipline and MDA factories (props/_c20_recipes.py) x grammar type x cache type.
Part S  MDOScenario / DOEScenario: round-trip fresh / after an execution, same optimization result.
Part F  MDOFunction trees (sum, product, negation, offset, restriction, linear composition ...).
Part P  DesignSpace and OptimizationProblem (fresh, after preprocess_functions, after evaluations, after a driver run).

Oracles (what the statement says, no more):
  * the round-trip itself succeeds;
  * right after it: same grammars (names, required names, defaults, what they accept), same settings (public scalar
    attributes, linearization mode, differentiated names, cache type and tolerance, MDA settings), same local data,
    Jacobian and cache content, same counters (n_executions, n_linearizations, duration, status) - all exact;
  * every later operation gives the same outputs / Jacobians on the restored object as on the original: bitwise,
    except when an iterative process is involved (MDA, ODE solver, inner optimization), where a derived bound is used;
    "both raise the same exception type" is the same behaviour (a limitation of the class, not of its serialization);
  * after the same later operations the counters are again equal (they were carried over *as values*);
  * aliasing walk over the two object graphs: no shared mutable ndarray / dict / list / set / gemseo instance, apart
    from an explicit allow-list that is *reported* in the evidence (``aliasing_allowed``);
  * mutating the restored object's local data / defaults / Jacobian / cache leaves the original unchanged;
  * an HDF5 cache of the restored object is attached to the same file and node.

Oracle boundaries:
  * private attributes that a class documents as not serialized and rebuilds on demand are not compared; only
    behaviour is (so a rebuilt helper holding different scratch values is not a violation unless outputs differ);
  * the order of names in a grammar is not part of the statement (sorted names are compared);
  * MemoryFullCache(is_memory_shared=True) shares by documentation: not in the cache alphabet (noted in the evidence);
  * HDF5: two live cache objects writing one node each keep a private hash table and the second writer of an index
    fails - with or without pickling - so after a round-trip the restored object continues alone on the file and the
    original is continued through an identical twin with a file of its own (``_HDF_NOTE`` in ``_disc_case``);
  * an array over memory that no Python object owns (``foreign``) has undefined content and is not an observable
    (MDAQuasiNewton leaves such views of MINPACK's work vector in the local data of its disciplines);
  * an operation that raises the same exception type on the original and on the restored object is the same
    behaviour (listed in the evidence: ``operations_raising_on_original_and_restored_alike``).

Violation signatures: {invariant, cls, position of the round-trip, grammar, cache (+ stage / op)}; an axis on which every
enumerated value fails is generalised to "any", the same violation in >= 4 classes is merged (cls = "many"), and a
round-trip that raises is identified by the owner of the unpicklable leaf (``site``) instead of the class.
"""
from __future__ import annotations

import enum
import functools
import itertools
import os
import pickle
import sys
import time
import traceback
import types
from collections import deque
from collections.abc import Mapping

import numpy as np

from mc.core import Tally, digest, jsonable, pmap, pmap_raw
from props import _c20_recipes as R

LEVEL = "model_checking"

# value alphabets: scale factors applied to the default inputs (v1, v2, probe); rotated by VERIF_SEED
SCALESETS = [(1.0, 1.07, 0.96), (1.02, 0.95, 1.05), (0.98, 1.04, 1.01)]
OPS = ["E1", "E2", "L1"]
RTS = ["RP", "RF"]
GRAMMARS_QUICK = ["JSONGrammar", "SimpleGrammar"]
GRAMMARS_THOROUGH = ["JSONGrammar", "SimpleGrammar", "SimplerGrammar", "PydanticGrammar"]
CACHES = ["simple", "memF", "hdf"]

_COUNTER = itertools.count()


# ======================================================================================================
# generic helpers: values, comparison, round-trips, blame
# ======================================================================================================
def _is_sparse(v):
    return hasattr(v, "todense") and hasattr(v, "format")


def _dense(v):
    return np.asarray(v.todense()) if _is_sparse(v) else np.asarray(v)


def foreign(v):
    """An array over memory that no Python object owns (built from a raw pointer, e.g. the work vector MINPACK hands to
    the callback of scipy.optimize.root): its content is undefined once the owner is gone, so it is not an observable."""
    b = v
    while isinstance(b.base, np.ndarray):
        b = b.base
    return b.base is None and not b.flags.owndata


FOREIGN = ("foreign-memory",)


def val(v, depth=0):
    """Canonical, comparable rendering of a value (arrays bitwise)."""
    if isinstance(v, np.ndarray):
        if foreign(v):
            return FOREIGN
        if v.dtype == object:
            return ("ndo", v.shape, tuple(val(x, depth + 1) for x in v.ravel().tolist()))
        return ("nd", v.dtype.str, v.shape, np.ascontiguousarray(v).tobytes())
    if _is_sparse(v):
        return ("sp", v.format, val(_dense(v)))
    if hasattr(v, "matvec") and hasattr(v, "shape") and len(getattr(v, "shape", ())) == 2 and not isinstance(v, np.ndarray):
        try:  # a matrix-free Jacobian: compared through its action on the canonical basis
            return ("linop", val(np.column_stack([np.asarray(v.matvec(e)).ravel() for e in np.eye(v.shape[1])])))
        except Exception as e:  # noqa: BLE001
            return ("linop-unusable", type(e).__name__)
    if isinstance(v, (np.generic,)):
        return ("ng", type(v).__name__, v.item() if v == v else "nan")
    if isinstance(v, float):
        return v if v == v else "nan"
    if isinstance(v, (bool, int, str, bytes, complex)) or v is None:
        return v
    if isinstance(v, enum.Enum):
        return ("enum", type(v).__name__, v.name)
    if isinstance(v, os.PathLike):
        return ("path", os.fspath(v))
    if depth > 6:
        return ("deep", type(v).__name__)
    if isinstance(v, Mapping):
        return ("map", tuple(sorted(((str(k), val(x, depth + 1)) for k, x in v.items()), key=lambda kv: kv[0])))
    if isinstance(v, (list, tuple, deque)):
        return ("seq", tuple(val(x, depth + 1) for x in v))
    if isinstance(v, (set, frozenset)):
        return ("set", tuple(sorted((repr(val(x, depth + 1)) for x in v))))
    return ("obj", type(v).__name__)


def _short(v, n=160):
    try:
        if isinstance(v, tuple) and v and v[0] == "nd":
            s = np.frombuffer(v[3], dtype=np.dtype(v[1])).reshape(v[2]).tolist()
        else:
            s = v
        s = repr(s)
    except Exception:
        s = repr(v)
    return s if len(s) <= n else s[: n - 3] + "..."


def diff(a, b, path="", out=None, limit=12):
    """Paths at which two ``val``-like nested structures differ."""
    out = [] if out is None else out
    if len(out) >= limit:
        return out
    if isinstance(a, dict) and isinstance(b, dict):
        for k in list(a) + [k for k in b if k not in a]:
            if k not in a:
                out.append((f"{path}/{k}", "<absent>", _short(b[k])))
            elif k not in b:
                out.append((f"{path}/{k}", _short(a[k]), "<absent>"))
            else:
                diff(a[k], b[k], f"{path}/{k}", out, limit)
        return out
    if isinstance(a, tuple) and isinstance(b, tuple) and a and b and a[0] == b[0] and a != b:
        if a[0] == "map" and len(a) == 2 and len(b) == 2:
            return diff(dict(a[1]), dict(b[1]), path, out, limit)
        if a[0] == "seq" and len(a) == 2 and len(b) == 2 and len(a[1]) == len(b[1]):
            for k, (x, y) in enumerate(zip(a[1], b[1])):
                diff(x, y, f"{path}[{k}]", out, limit)
            return out
        if a[0] == "sp" and a[1] == b[1]:
            return diff(a[2], b[2], path, out, limit)
    if a != b and a != FOREIGN and b != FOREIGN:
        out.append((path, _short(a), _short(b)))
    return out


def close(a, b, tol):
    """Outcome values equal: bitwise when tol == 0, else |a-b| <= tol (1+|a|) elementwise, same shape/dtype kind."""
    if isinstance(a, dict) and isinstance(b, dict):
        return set(a) == set(b) and all(close(a[k], b[k], tol) for k in a)
    if a is FOREIGN or b is FOREIGN:
        return True  # undefined content on one side: nothing to require
    if _is_sparse(a) or _is_sparse(b):
        return _is_sparse(a) == _is_sparse(b) and close(_dense(a), _dense(b), tol)
    if isinstance(a, np.ndarray) or isinstance(b, np.ndarray):
        if not (isinstance(a, np.ndarray) and isinstance(b, np.ndarray)) or a.shape != b.shape or a.dtype != b.dtype:
            return False
        if a.dtype.kind not in "fc" or tol == 0.0:
            return val(a) == val(b)
        return bool(np.all(np.abs(a - b) <= tol * (1.0 + np.abs(a)) + 0.0) or val(a) == val(b))
    return val(a) == val(b)


def roundtrip(obj, kind, scratch):
    if kind == "RP":
        return pickle.loads(pickle.dumps(obj))
    from gemseo.utils.pickle import from_pickle, to_pickle

    path = os.path.join(scratch, f"c20_{os.getpid()}_{next(_COUNTER)}.pkl")
    try:
        to_pickle(obj, path)
        return from_pickle(path)
    finally:
        if os.path.exists(path):
            os.remove(path)


def _unpicklable_leaves(obj, path, depth, seen, out):
    """Collect (type path, is_true_leaf) of the sub-objects that cannot be pickled on their own and have no failing child."""
    if id(obj) in seen or depth > 10:
        return "cycle"
    seen.add(id(obj))
    try:
        pickle.dumps(obj)
        return "ok"
    except Exception:  # noqa: BLE001
        pass
    try:
        state = obj.__getstate__() if hasattr(obj, "__getstate__") and not isinstance(obj, (dict, list, tuple, set, frozenset, type)) else None
    except Exception:  # noqa: BLE001
        state = None
    if isinstance(state, tuple) and len(state) == 2 and isinstance(state[1], dict):  # __slots__ protocol
        state = {**(state[0] or {}), **state[1]}
    if isinstance(obj, dict):
        children = [(f"[{k!r}]", v) for k, v in obj.items()]
    elif isinstance(obj, (list, tuple, set, frozenset)):
        children = [(f"[{i}]", v) for i, v in enumerate(obj)]
    elif isinstance(state, dict):
        children = [("." + str(k).split("__")[-1], v) for k, v in state.items()]
    elif isinstance(obj, types.MethodType):
        children = [(".__self__", obj.__self__)]
    elif isinstance(obj, functools.partial):
        children = [(".func", obj.func), (".args", obj.args), (".keywords", obj.keywords)]
    else:
        children = []
    me = f"{path} > {type(obj).__name__}" if path else type(obj).__name__
    failing = cyc = False
    for name, child in children:
        r = _unpicklable_leaves(child, me + name, depth + 1, seen, out)
        failing |= r == "fail"
        cyc |= r == "cycle"
    if not failing:
        out.append((me, not cyc))
    return "fail"


def blame(obj):
    """Type path to the sub-object that cannot be pickled, e.g. 'Sellar1.cache > MemoryFullCache.lock > RLock'."""
    out = []
    _unpicklable_leaves(obj, "", 0, set(), out)
    true_leaves = [p for p, leaf in out if leaf]
    return (true_leaves or [p for p, _ in out] or [type(obj).__name__])[0]


def site_of(blame_path):
    """The defect site of a pickling failure = the owner of the unpicklable leaf (last two links of the path)."""
    parts = [p for p in (blame_path or "?").split(" > ")]
    # drop pure container links ([..]) when naming the owner
    named = [p for p in parts if not p.startswith(("dict[", "list[", "tuple[", "set["))] or parts
    return " > ".join(named[-2:])


# ======================================================================================================
# aliasing walk
# ======================================================================================================
_IMMUTABLE = (str, bytes, int, float, complex, bool, type(None), range, slice, type(Ellipsis), type(NotImplemented), types.MappingProxyType)
_SKIP_TYPES = (type, types.ModuleType, types.FunctionType, types.BuiltinFunctionType, types.MethodDescriptorType, types.WrapperDescriptorType,
               types.GetSetDescriptorType, types.MemberDescriptorType, enum.Enum, np.generic, np.dtype, np.ufunc, property, staticmethod, classmethod)
_GLOBAL_IDS = None
_GLOBAL_N = 0


def _global_ids():
    """ids of the objects bound at module level or class level (global constants / singletons)."""
    global _GLOBAL_IDS, _GLOBAL_N
    if _GLOBAL_IDS is not None and _GLOBAL_N == len(sys.modules):
        return _GLOBAL_IDS
    ids = set()
    for m in list(sys.modules.values()):
        try:
            vs = list(vars(m).values())
        except Exception:
            continue
        for v in vs:
            ids.add(id(v))
            if isinstance(v, type):
                stack = [v]
                while stack:
                    c = stack.pop()
                    try:
                        for w in vars(c).values():
                            if id(w) not in ids:
                                ids.add(id(w))
                                if isinstance(w, type):
                                    stack.append(w)
                    except Exception:
                        pass
    _GLOBAL_IDS, _GLOBAL_N = ids, len(sys.modules)
    return ids


def walk(root, cap=400000):
    """(objects, parents): key -> (path, object) for every mutable object reachable from ``root`` through instance
    dictionaries, slots, mappings, sequences, sets, bound methods and partials, and key -> keys of the recorded objects
    that refer to it.  Classes, modules and functions are not entered."""
    from multiprocessing.managers import BaseProxy

    out, parents, seen = {}, {}, set()
    stack = [(root, "obj", None)]
    while stack and len(seen) < cap:
        o, p, par = stack.pop()
        if isinstance(o, _IMMUTABLE) or isinstance(o, _SKIP_TYPES):
            continue
        i = id(o)
        passthrough = isinstance(o, (tuple, frozenset, types.MethodType, functools.partial))
        key = ("proxy", str(getattr(o, "_token", None))) if isinstance(o, BaseProxy) else i
        if not passthrough:
            parents.setdefault(key, set()).add(par)
        if i in seen:
            continue
        seen.add(i)
        if isinstance(o, np.ndarray):
            out[i] = (p, o)
            b = o
            while isinstance(b.base, np.ndarray):
                b = b.base
            if b is not o:
                out.setdefault(id(b), (p + ".base", b))
                parents.setdefault(id(b), set()).add(par)
            if o.dtype == object:
                for k, x in enumerate(o.ravel().tolist()):
                    stack.append((x, f"{p}[{k}]", i))
            continue
        if isinstance(o, BaseProxy):
            out[key] = (p, o)
            continue
        tn = type(o).__name__
        if tn in ("HDF5FileSingleton", "RLock", "Lock", "Synchronized", "SynchronizedBase", "Logger"):
            out[i] = (p, o)
            continue
        if isinstance(o, (tuple, frozenset)):
            for k, x in enumerate(o):
                stack.append((x, f"{p}[{k}]", par))
            continue
        if isinstance(o, types.MethodType):
            stack.append((o.__self__, p + ".__self__", par))
            continue
        if isinstance(o, functools.partial):
            stack += [(o.func, p + ".func", par), (o.args, p + ".args", par), (o.keywords, p + ".keywords", par)]
            continue
        out[i] = (p, o)
        if isinstance(o, dict):
            for k, x in list(o.items()):
                stack.append((x, f"{p}[{k!r}]", i))
                if not isinstance(k, _IMMUTABLE):
                    stack.append((k, f"{p}.key", i))
        elif isinstance(o, (list, set, deque)):
            for k, x in enumerate(list(o)):
                stack.append((x, f"{p}[{k}]", i))
        d = getattr(o, "__dict__", None)
        if isinstance(d, dict):
            for k, x in list(d.items()):
                stack.append((x, f"{p}.{k}", i))
        for c in type(o).__mro__:
            sl = c.__dict__.get("__slots__", ())
            for sname in (sl,) if isinstance(sl, str) else (sl if isinstance(sl, (tuple, list)) else ()):
                try:
                    stack.append((getattr(o, sname), f"{p}.{sname}", i))
                except Exception:  # noqa: BLE001
                    pass
    return out, parents


def shared_objects(a, b):
    """(violations, allowed) among the objects reachable from both ``a`` and ``b``.

    Only the *entry points* of the shared part of the two graphs are classified: an object all of whose referrers (in
    both graphs) are themselves shared is reached only through something already reported or allowed."""
    (wa, pa_), (wb, pb_) = walk(a), walk(b)
    common = {k for k in wa.keys() & wb.keys() if isinstance(k, tuple) or wa[k][1] is wb[k][1]}
    bad, allowed = [], []
    gids = None
    for k in sorted(common, key=lambda k: len(wa[k][0])):
        if all(par in common for par in pa_.get(k, ())) and all(par in common for par in pb_.get(k, ())):
            continue  # dominated by other shared objects
        pa, oa = wa[k]
        pb, ob = wb[k]
        t = type(oa)
        tn = t.__name__
        if isinstance(k, tuple):  # a manager proxy to one referent
            bad.append((pa, pb, tn, "(manager proxy to the same server-side object)"))
            continue
        if tn == "HDF5FileSingleton":
            allowed.append(("file-backed cache singleton", tn))
            continue
        if tn in ("RLock", "Lock", "Logger"):
            allowed.append(("lock/logger (no data)", tn))
            continue
        if gids is None:
            gids = _global_ids()
        if k in gids:
            allowed.append(("module-level or class-level object", tn))
            continue
        if isinstance(oa, np.ndarray) and not oa.flags.writeable:
            allowed.append(("read-only array", tn))
            continue
        mod = getattr(t, "__module__", "") or ""
        container = isinstance(oa, (np.ndarray, dict, list, set, deque, bytearray)) or _is_sparse(oa)
        if (container and not mod.startswith("sympy")) or mod.startswith("gemseo") or tn in ("Synchronized",):
            bad.append((pa, pb, tn, ""))
        else:
            allowed.append(("third-party instance pickled by reference or interned (immutable by convention)", f"{mod}.{tn}"))
    return bad, allowed


# ======================================================================================================
# part D: disciplines and processes
# ======================================================================================================
def _set_grammar(gname):
    from gemseo.core.discipline.base_discipline import BaseDiscipline

    old = BaseDiscipline.default_grammar_type
    BaseDiscipline.default_grammar_type = BaseDiscipline.GrammarType(gname)
    return old


def _restore_grammar(old):
    from gemseo.core.discipline.base_discipline import BaseDiscipline

    BaseDiscipline.default_grammar_type = old


def _inputs(d, scale):
    """The default inputs, scaled and shifted (the shift separates the three inputs of classes whose defaults are 0).

    Complex defaults (a class built for the complex-step method) get an imaginary perturbation, so that the probes are
    sensitive to the data type with which the class computes."""
    out = {}
    shift = (scale - 1.0) / 2.0
    for k, v in d.default_input_data.items():
        if isinstance(v, np.ndarray) and v.dtype.kind == "f":
            out[k] = v * scale + shift
        elif isinstance(v, np.ndarray) and v.dtype.kind == "c":
            out[k] = v * scale + shift + 1e-30j * (1.0 + np.arange(v.size).reshape(v.shape))
        elif isinstance(v, float):
            out[k] = v * scale + shift
        elif isinstance(v, np.ndarray):
            out[k] = v.copy()
        else:
            out[k] = v
    return out


def _base_cls(name):
    return name.split("/")[0].split("@")[0]


def _copy_inputs(x):
    return {k: (v.copy() if isinstance(v, np.ndarray) else v) for k, v in x.items()}


def _apply_lin_mode(d, lin):
    mode = lin[0]
    if mode == "fd":
        d.linearization_mode = d.ApproximationMode.FINITE_DIFFERENCES
    elif mode == "sub":
        d.add_differentiated_inputs(lin[1])
        d.add_differentiated_outputs(lin[2])


def _linearize(d, x, lin):
    if lin[0] in ("all", "fd"):
        return d.linearize(x, compute_all_jacobians=True)
    return d.linearize(x)


def _set_cache(d, cache, h5):
    if cache == "simple":
        return  # the default policy of every class
    if cache == "memF":
        d.set_cache(d.CacheType.MEMORY_FULL, is_memory_shared=False)
    elif cache == "hdf":
        d.set_cache(d.CacheType.HDF5, hdf_file_path=h5, hdf_node_path="grp/c20node")
    elif cache == "none":
        d.set_cache(d.CacheType.NONE)


def _forget_h5(h5):
    try:
        from gemseo.utils.singleton import SingleInstancePerFileAttribute

        for k in [k for k in SingleInstancePerFileAttribute.instances if isinstance(k, tuple) and len(k) > 1 and str(k[1]).endswith(os.path.basename(h5))]:
            SingleInstancePerFileAttribute.instances.pop(k, None)
    except Exception:
        pass
    for p in (h5,):
        if os.path.exists(p):
            try:
                os.remove(p)
            except OSError:
                pass


def _snap_out(o):
    """Private snapshot of an operation's result (dict of values / nested dict of matrices)."""
    if isinstance(o, Mapping):
        return {k: _snap_out(v) for k, v in o.items()}
    if isinstance(o, np.ndarray):
        return FOREIGN if foreign(o) else o.copy()
    if _is_sparse(o):
        return o.copy()
    return o


GRAMMAR_EDITS = ["GR", "GN", "GA", "GD", "GQ"]


def _grammar_edit(d, op):
    """Edit a grammar of the discipline in place (the edits a user or a wrapper performs after construction).

    GR restrict a grammar to a strict subset (the output grammar when it has >= 2 names, else the input grammar)
    GN rename the first input                      GA add an input name with a default value
    GD replace the default value of the first input with a default   GQ make the first required input optional
    """
    ig, og = d.io.input_grammar, d.io.output_grammar
    if op == "GR":
        g = og if len(og) >= 2 else ig
        names = list(g.keys())
        if len(names) < 2:
            raise ValueError("nothing to restrict")
        g.restrict_to(names[:-1])
        return {"grammar": "output" if g is og else "input", "kept": sorted(names[:-1])}
    names = list(ig.keys())
    if op == "GN":
        ig.rename_element(names[0], names[0] + "_c20r")
    elif op == "GA":
        ig.update_from_names(["c20_added"])
        ig.defaults["c20_added"] = np.array([1.5])
    elif op == "GD":
        name = next(k for k, v in ig.defaults.items() if isinstance(v, np.ndarray) and v.dtype.kind == "f")
        ig.defaults[name] = ig.defaults[name] * 1.5 + 0.25
    elif op == "GQ":
        ig.required_names.discard(sorted(ig.required_names)[0])
    else:
        raise ValueError(op)
    return {"names": sorted(ig.keys()), "required": sorted(ig.required_names)}


def _with_residuals(d, out):
    """The outputs of an execution, plus the residual history of an MDA (its length is the number of iterations)."""
    rh = getattr(d, "residual_history", None)
    if rh is not None:
        out = dict(out)
        out["c20::residual_history"] = np.array(list(rh), dtype=float)
    return out


def _do(d, op, V, lin):
    """Apply one operation of the alphabet to one twin -> ('ok', result) | ('raise', ExceptionType, text)."""
    try:
        if op[0] == "E":
            return ("ok", _with_residuals(d, _snap_out(d.execute(_copy_inputs(V[int(op[1]) - 1])))))
        if op[0] == "L":
            return ("ok", _snap_out(_linearize(d, _copy_inputs(V[int(op[1]) - 1]), lin)))
        if op[0] == "G":
            return ("ok", _grammar_edit(d, op))
    except Exception as e:  # noqa: BLE001
        return ("raise", type(e).__name__, f"{type(e).__name__}: {str(e)[:300]}")
    raise ValueError(op)


def _grammar_obs(g, probe):
    o = {"type": type(g).__name__, "names": tuple(sorted(g.keys())), "required": tuple(sorted(g.required_names)),
         "namespaces": val(dict(getattr(g, "to_namespaced", {}) or {}))}
    # what the grammar accepts: a few data (complete, wrongly typed, empty, one name missing, one unknown name added)
    acc = []
    for data in probe:
        try:
            g.validate(data)
            acc.append(True)
        except Exception as e:  # noqa: BLE001
            acc.append(type(e).__name__)
    o["accepts"] = tuple(acc)
    return o


def _probe_data(good):
    probes = [good, {}]
    arr = [k for k, v in good.items() if isinstance(v, np.ndarray)]
    if arr:
        probes.append({**good, arr[0]: "not an array"})
        probes.append({k: v for k, v in good.items() if k != arr[-1]})
    probes.append({**good, "c20_unknown_name": np.array([1.0])})
    return probes


def _cache_obs(c):
    if c is None:
        return {"type": None}
    o = {"type": type(c).__name__, "tolerance": c.tolerance, "name": c.name}
    try:
        o["len"] = len(c)
        if type(c).__name__ == "SimpleCache":
            le = c.last_entry
            o["entries"] = val([[dict(le.inputs or {}), dict(le.outputs or {}), {k: dict(r) for k, r in (le.jacobian or {}).items()}]])
        elif len(c) > 0:
            o["entries"] = val([[dict(e.inputs or {}), dict(e.outputs or {}), {k: dict(r) for k, r in (e.jacobian or {}).items()}] for e in c.get_all_entries()])
        else:
            o["entries"] = val([])
        if hasattr(c, "hdf_file"):
            o["hdf_file"] = os.path.realpath(str(c.hdf_file.hdf_file_path))
            o["hdf_node"] = c.hdf_node_path
    except Exception as e:  # noqa: BLE001
        o["unreadable"] = f"{type(e).__name__}: {str(e)[:120]}"
    try:  # the last *accessed* entry (not necessarily the newest one): it drives e.g. the warm start of the MDAs
        le = c.last_entry
        o["last_entry"] = val([dict(le.inputs or {}), dict(le.outputs or {}), {k: dict(r) for k, r in (le.jacobian or {}).items()}])
    except Exception as e:  # noqa: BLE001
        o["last_entry"] = f"unreadable: {type(e).__name__}"
    return o


_SIMPLE = (bool, int, float, str, complex, type(None), enum.Enum, np.generic, os.PathLike)


def _public_scalars(obj):
    out = {}
    for k, v in vars(obj).items():
        if k.startswith("_"):
            continue
        if isinstance(v, _SIMPLE) or isinstance(v, np.ndarray) or (isinstance(v, (tuple, list, set, frozenset)) and all(isinstance(x, _SIMPLE) for x in v)):
            out[k] = val(v)
    return out


def observe(d, V=None, with_state=True, with_duration=True, depth=0):
    """The observable state of a discipline / process, as a nested dict of comparable values (group -> ...)."""
    o = {"class": type(d).__name__, "name": d.name}
    ig, og = d.io.input_grammar, d.io.output_grammar
    o["grammar"] = {"input": _grammar_obs(ig, _probe_data(dict(ig.defaults))),
                    "output": _grammar_obs(og, _probe_data({k: v for k, v in d.io.data.items() if k in og and not (isinstance(v, np.ndarray) and foreign(v))}))}
    o["defaults"] = {"input": val(dict(ig.defaults)), "output": val(dict(og.defaults))}
    s = {"public": _public_scalars(d), "linearization_mode": str(getattr(d, "linearization_mode", None)),
         "diff_inputs": tuple(sorted(getattr(d, "_differentiated_input_names", ()))), "diff_outputs": tuple(sorted(getattr(d, "_differentiated_output_names", ()))),
         "cache_type": type(d.cache).__name__, "cache_tolerance": getattr(d.cache, "tolerance", None),
         "data_processor": type(d.io.data_processor).__name__, "residual_to_state_variable": val(d.io.residual_to_state_variable),
         "state_equations_are_solved": d.io.state_equations_are_solved,
         "jac_approx": type(getattr(d, "_jac_approx", None)).__name__}
    st = getattr(d, "settings", None)
    if st is not None and hasattr(st, "model_dump"):
        try:
            s["settings_model"] = val({k: v for k, v in st.model_dump().items()})
        except Exception as e:  # noqa: BLE001
            s["settings_model"] = f"unreadable {type(e).__name__}"
    o["settings"] = s
    es = d.execution_statistics
    o["counters"] = {"n_executions": es.n_executions, "n_linearizations": es.n_linearizations, "status": str(d.execution_status.value)}
    if with_duration:
        o["counters"]["duration"] = es.duration
    if with_state:
        o["state"] = {"local_data": val(dict(d.io.data)), "jac": val({k: dict(r) for k, r in (d.jac or {}).items()} if isinstance(getattr(d, "jac", None), Mapping) else None),
                      "cache": _cache_obs(d.cache)}
        if getattr(d, "residual_history", None) is not None:
            o["state"]["residual_history"] = val([float(x) for x in d.residual_history])
    subs = getattr(d, "disciplines", None) if depth < 3 else None
    if subs and not isinstance(subs, Mapping):
        try:
            o["sub"] = {f"{i}:{type(x).__name__}": observe(x, None, with_state, with_duration, depth + 1) for i, x in enumerate(subs) if hasattr(x, "io")}
        except Exception as e:  # noqa: BLE001
            o["sub"] = f"unreadable {type(e).__name__}: {str(e)[:80]}"
    sc = getattr(d, "scenario", None)
    if sc is not None and hasattr(sc, "design_space"):
        o["scenario"] = observe_scenario(sc, with_state)
    return o


def observe_design_space(ds):
    o = {"names": tuple(ds.variable_names), "sizes": val(dict(ds.variable_sizes)), "types": val({k: str(v) for k, v in ds.variable_types.items()}),
         "lb": val(ds.get_lower_bounds()), "ub": val(ds.get_upper_bounds()), "normalize": val({k: v for k, v in ds.normalize.items()}),
         "has_current": ds.has_current_value}
    if ds.has_current_value:
        o["current"] = val(ds.get_current_value())
        try:
            o["current_normalized"] = val(ds.get_current_value(normalize=True))
        except Exception as e:  # noqa: BLE001
            o["current_normalized"] = type(e).__name__
    return o


def observe_problem(p, with_state=True):
    o = {"design_space": observe_design_space(p.design_space), "objective": p.objective.name if p.objective is not None else None,
         "minimize": p.minimize_objective, "constraints": tuple((c.name, str(c.f_type)) for c in p.constraints), "observables": tuple(f.name for f in p.observables),
         "differentiation_method": str(p.differentiation_method), "tolerances": val({"eq": p.tolerances.equality, "ineq": p.tolerances.inequality}),
         "preprocessed": bool(getattr(p, "_functions_are_preprocessed", None)), "functions": tuple((f.name, type(f).__name__) for f in p.functions)}
    if with_state:
        db = p.database
        o["database"] = val([[np.asarray(k.unwrap()), {n: v for n, v in d.items()}] for k, d in db.items()])
        o["n_calls"] = val({f.name: f.n_calls for f in p.functions if hasattr(f, "n_calls")})
        o["evaluation_counter"] = val({"current": p.evaluation_counter.current, "maximum": p.evaluation_counter.maximum})
        sol = p.solution
        o["solution"] = None if sol is None else val({"x_opt": sol.x_opt, "f_opt": sol.f_opt, "n_obj_call": sol.n_obj_call, "is_feasible": sol.is_feasible, "status": sol.status, "message": str(sol.message)})
    return o


def observe_scenario(sc, with_state=True):
    o = {"class": type(sc).__name__, "name": sc.name, "formulation": type(sc.formulation).__name__,
         "problem": observe_problem(sc.formulation.optimization_problem, with_state),
         "counters": {"n_executions": sc.execution_statistics.n_executions, "status": str(sc.execution_status.value)}}
    st = getattr(sc, "_settings", None)
    if st is not None and hasattr(st, "model_dump"):
        o["algo_settings"] = val(st.model_dump())
    return o


_INVARIANT_OF_GROUP = {
    "class": "class-differs", "name": "settings-differ", "grammar": "grammar-differs", "defaults": "defaults-differ", "settings": "settings-differ",
    "counters": "counters-not-carried-over", "state": "state-differs", "scenario": "scenario-state-differs",
}


def static_violations(oa, ob, when):
    """Compare two ``observe`` results -> [(invariant, detail)]."""
    out = []
    for path, x, y in diff(oa, ob):
        parts = [p for p in path.split("/") if p]
        # the group is the first path element that names a group (sub-disciplines are prefixes)
        grp = next((p for p in parts if p in _INVARIANT_OF_GROUP), parts[0] if parts else "?")
        inv = _INVARIANT_OF_GROUP.get(grp, "state-differs")
        if grp == "state" and "cache" in parts:
            inv = "cache-last-entry-differs" if any(p.startswith("last_entry") for p in parts) else "cache-content-differs"
        out.append((inv, f"{when}: {path}: original {x} != restored {y}"))
    return out


def _position(hist):
    """Where the (first) round-trip happens: fresh / after-execute / after-linearize."""
    i = next(k for k, op in enumerate(hist) if op in RTS)
    if i == 0:
        return "fresh"
    prev = hist[i - 1]
    return "after-linearize" if prev.startswith("L") else ("after-grammar-edit" if prev.startswith("G") else "after-execute")


def _mutate_and_check(o, r, cache_kind):
    """Mutate the restored object's local data / defaults / Jacobian / cache in place; the original must not change."""
    before = observe(o, with_duration=False)
    n = 0
    for k, v in list(r.io.data.items()):
        if isinstance(v, np.ndarray) and v.flags.writeable and v.dtype.kind == "f" and v.size:
            v += 1.25
            n += 1
    r.io.data["__c20_new_item__"] = np.array([1.0])
    for g in (r.io.input_grammar, r.io.output_grammar):
        for k, v in list(g.defaults.items()):
            if isinstance(v, np.ndarray) and v.flags.writeable and v.dtype.kind == "f" and v.size:
                v *= 3.0
                n += 1
        names = list(g.keys())
        if names:
            try:
                g.defaults[names[-1]] = np.array([123.0])
            except Exception:  # noqa: BLE001
                pass
    for row in (r.jac or {}).values() if isinstance(getattr(r, "jac", None), Mapping) else ():
        for k, m in list(row.items()):
            if isinstance(m, np.ndarray) and m.flags.writeable and m.size:
                m += 7.0
                n += 1
    if r.cache is not None and cache_kind != "hdf":  # (clearing an HDF5 cache clears the file, which is shared by design)
        try:
            le = r.cache.last_entry
            for grp in (le.inputs, le.outputs):
                for v in (grp or {}).values():
                    if isinstance(v, np.ndarray) and v.flags.writeable and v.dtype.kind == "f" and v.size:
                        v -= 2.5
        except Exception:  # noqa: BLE001
            pass
        r.cache.clear()
    after = observe(o, with_duration=False)
    return [("mutating-the-restored-object-changes-the-original", f"{p}: {x} -> {y}") for p, x, y in diff(before, after)], digest(repr(before))


def _canon_state(d):
    try:
        return digest(repr(observe(d, with_duration=False)))
    except Exception:  # noqa: BLE001
        return digest(repr(("unobservable", type(d).__name__)))


def _disc_case(case, tally):
    """Execute one history on one (class x grammar x cache) configuration."""
    name, gname, cache, hist, lin, scales = case["subject"], case["grammar"], case["cache"], case["hist"], case["lin"], case["scales"]
    scratch = case.get("scratch") or _SCRATCH
    tol = case.get("tol", 0.0)
    h5 = os.path.join(scratch, f"c20_{os.getpid()}_{next(_COUNTER)}.h5")
    base = {"cls": name.split("/")[0], "position": _position(hist), "grammar": gname, "cache": cache}
    found = []  # (invariant, extra signature fields, message)

    def bad(inv, msg, **extra):
        found.append((inv, extra, msg))

    old = _set_grammar(gname)
    outcome = "ok"
    n_tr = 0
    h5b = h5[:-3] + "_ref.h5"
    try:
        d = R.build(name, None)
        _set_cache(d, cache, h5)
        _apply_lin_mode(d, lin)
        V = [_inputs(d, s) for s in scales]
        twins = [d]  # the original and every restored object, oldest first
        live = [d]  # the objects that receive the operations; live[0] plays the original in every comparison
        raised_both = False
        for step, op in enumerate(hist):
            if op in RTS:
                src = twins[-1]
                try:
                    new = roundtrip(src, op, scratch)
                except Exception as e:  # noqa: BLE001
                    b = blame(src)
                    bad("round-trip-raises", f"{op} of {name} ({_position(hist)}) raises {type(e).__name__}: {str(e)[:200]}; unpicklable part: {b}", site=site_of(b), error=type(e).__name__)
                    outcome = "round-trip-raises"
                    break
                n_tr += 1
                for inv, msg in static_violations(observe(src, V), observe(new, V), f"right after {op}"):
                    bad(inv, msg)
                twins.append(new)
                if cache == "hdf":
                    # _HDF_NOTE (oracle boundary): two live HDF5Cache objects writing one node each keep a private hash
                    # table and the second writer of an index fails - with or without pickling (two disciplines given the
                    # same file and node behave the same), so this is not a statement about serialization.  The object
                    # that stays attached to the file is therefore continued alone, and the original is continued through
                    # an identical twin with a file of its own (same class, same history so far).
                    if len(twins) == 2:
                        ref = R.build(name, None)
                        _set_cache(ref, cache, h5b)
                        _apply_lin_mode(ref, lin)
                        for op0 in hist[:step]:
                            if op0 not in RTS:
                                _do(ref, op0, V, lin)
                        live = [ref, new]
                    else:
                        live = [live[0], new]
                else:
                    live.append(new)
                continue
            results = [_do(t, op, V, lin) for t in live]
            n_tr += len(live)
            r0 = results[0]
            if op[0] == "G" and r0[0] == "raise" and len(live) == 1:
                tally.count(f"grammar-edit-refused:{op}:{r0[1]}")
            for k, rk in enumerate(results[1:], 1):
                if r0[0] == "raise" and rk[0] == "raise":
                    if r0[1] != rk[1]:
                        bad("different-exception", f"{op} (step {step}): original raises {r0[2]}, restored twin {k} raises {rk[2]}", op=op[0])
                    raised_both = True
                    tally.sets.setdefault("raises_on_both", set()).add(f"{name}: {op[0]}: {r0[2][:90]}")
                elif r0[0] != rk[0]:
                    who = "restored" if rk[0] == "raise" else "original"
                    bad("restored-raises" if rk[0] == "raise" else "original-raises-restored-does-not", f"{op} (step {step}) raises on the {who} object only: {(rk if rk[0] == 'raise' else r0)[2]}", op=op[0])
                elif not close(r0[1], rk[1], 0.0):
                    if tol and close(r0[1], rk[1], tol):
                        outcome = "ok-within-iteration-tolerance"
                    else:
                        dd = diff(_val_tree(r0[1]), _val_tree(rk[1]), limit=4)
                        bad({"E": "restored-output-differs", "G": "grammar-differs"}.get(op[0], "restored-jacobian-differs"), f"{op} (step {step}) on restored twin {k}: " + "; ".join(f"{p}: original {x} restored {y}" for p, x, y in dd), op=op[0])
        else:
            if len(twins) > 1:
                o, r = live[0], live[-1]
                # same later operations on both -> same counters again (carried over as values), same settings / grammars
                exact = tol == 0.0
                for t in live[1:]:
                    oa, ob = observe(o, V, with_state=exact, with_duration=False), observe(t, V, with_state=exact, with_duration=False)
                    if cache == "hdf" and exact:
                        oa["state"]["cache"].pop("hdf_file", None), ob["state"]["cache"].pop("hdf_file", None)
                    for inv, msg in static_violations(oa, ob, "after the same later operations"):
                        if not exact and "/sub/" in msg and inv == "counters-not-carried-over":
                            continue  # inner iteration counts of an iterative process are only equal up to its tolerance
                        bad(inv, msg)
                # probes: a new input and the first input again
                for op in ("E3", "L1"):
                    if op == "L1" and lin[0] == "none":
                        continue
                    r0, r1 = _do(o, op, V, lin), _do(r, op, V, lin)
                    n_tr += 2
                    if r0[0] == "raise" and r1[0] == "raise":
                        if r0[1] != r1[1]:
                            bad("different-exception", f"probe {op}: original raises {r0[2]}, restored raises {r1[2]}", op=op[0])
                    elif r0[0] != r1[0]:
                        bad("restored-raises" if r1[0] == "raise" else "original-raises-restored-does-not", f"probe {op} raises on one object only: {(r1 if r1[0] == 'raise' else r0)[2]}", op=op[0])
                    elif not close(r0[1], r1[1], 0.0):
                        if tol and close(r0[1], r1[1], tol):
                            outcome = "ok-within-iteration-tolerance"
                        else:
                            dd = diff(_val_tree(r0[1]), _val_tree(r1[1]), limit=4)
                            bad("restored-output-differs" if op[0] == "E" else "restored-jacobian-differs", f"probe {op}: " + "; ".join(f"{p}: original {x} restored {y}" for p, x, y in dd), op=op[0])
                # aliasing: the true original against the youngest restored object
                o = twins[0]
                shared, allowed = shared_objects(o, r)
                for why, tn in allowed:
                    tally.sets.setdefault("aliasing_allowed", set()).add(f"{why}: {tn}")
                for pa, pb, tn, note in shared[:5]:
                    bad("shared-mutable-object", f"the same {tn} object is reachable from the original at {pa} and from the restored object at {pb} {note}", what=tn, where=_generic_path(pa))
                # file attachment
                if cache == "hdf":
                    co, cr = _cache_obs(o.cache), _cache_obs(r.cache)
                    if (co.get("hdf_file"), co.get("hdf_node")) != (cr.get("hdf_file"), cr.get("hdf_node")) or cr.get("type") != "HDF5Cache":
                        bad("file-cache-detached", f"original cache on {co.get('hdf_file')}:{co.get('hdf_node')}, restored cache {cr.get('type')} on {cr.get('hdf_file')}:{cr.get('hdf_node')}")
                # mutation of the restored object
                canon_r = _canon_state(r)
                mv, canon_o = _mutate_and_check(o, r, cache)
                for inv, msg in mv[:4]:
                    bad(inv, msg)
                tally.sets.setdefault("states", set()).update({canon_o, canon_r})
            if raised_both and outcome == "ok":
                outcome = "ok-some-operation-raises-on-both"
    finally:
        _restore_grammar(old)
        if cache == "hdf":
            _forget_h5(h5)
            _forget_h5(h5b)
    if found and outcome in ("ok", "ok-within-iteration-tolerance", "ok-some-operation-raises-on-both"):
        outcome = "violation"
    tally.case(("D", name, gname, cache, tuple(hist)), nontrivial=any(op not in RTS for op in hist), outcome=f"D:{outcome}",
               sample={"subject": name, "grammar": gname, "cache": cache, "hist": hist} if len(hist) == 3 else None)
    tally.traces += 1
    tally.transitions += n_tr
    if any(inv == "cache-last-entry-differs" for inv, _, _ in found):
        # the restored cache points at another entry: what a warm-started process computes next is a consequence
        n_all = len(found)
        found = [f for f in found if f[0] in ("cache-last-entry-differs", "round-trip-raises", "shared-mutable-object", "grammar-differs", "defaults-differ")]
        tally.count("inherited_violations", n_all - len(found))
    for inv, extra, msg in found:
        sig = {"invariant": inv, **extra} if inv == "round-trip-raises" else {"invariant": inv, **base, **extra}
        tally.sets.setdefault("subjects:" + _fixed_key(sig), set()).add(name)
        tally.violation(sig, case, f"{inv}: {name} [{gname}, {cache} cache] history {hist}: {msg}")


def _val_tree(o):
    if isinstance(o, Mapping):
        return {str(k): _val_tree(v) for k, v in o.items()}
    return val(o)


def _generic_path(p):
    """Attribute path without indices / keys (so that one defect has one signature)."""
    import re

    return re.sub(r"\[[^\]]*\]", "[]", p)[:120]


_SCRATCH = "/dev/shm"


# ---- catalog: what can be built under which grammar, and how it can be linearized --------------------------------
def _catalog_one(name, gname, scales):
    t0 = time.time()
    info = {"subject": name, "grammar": gname, "built": False}
    old = _set_grammar(gname)
    try:
        try:
            d = R.build(name, None)
            info["grammar_obtained"] = type(d.io.input_grammar).__name__
            d.execute(_inputs(d, scales[0]))
        except Exception as e:  # noqa: BLE001
            info["why"] = f"{type(e).__name__}: {str(e)[:100]}"
            return info
        info["built"] = True
        ins, outs = list(d.io.input_grammar), list(d.io.output_grammar)
        nonc = [i for i in ins if i not in outs]
        candidates = [["all"]]
        if _base_cls(name) in R_DIFF:
            candidates.append(["sub", *R_DIFF[_base_cls(name)]])
        candidates += [["sub", nonc, outs], ["fd"]]
        info["lin"] = ["none"]
        for lin in candidates:
            try:
                d = R.build(name, None)
                _apply_lin_mode(d, lin)
                j = _linearize(d, _inputs(d, scales[0]), lin)
                if j and any(len(r) for r in j.values()):
                    info["lin"] = lin
                    break
            except Exception as e:  # noqa: BLE001
                info.setdefault("lin_errors", []).append(f"{lin[0]}: {type(e).__name__}: {str(e)[:80]}")
        info["cost_s"] = round(time.time() - t0, 3)
        return info
    finally:
        _restore_grammar(old)


R_DIFF = {"MDOScenarioAdapter": (["p"], ["f"]), "MDOObjectiveScenarioAdapter": (["p"], ["f"])}


def histories(n_other, max_rt=1, max_len=None):
    """Every word with at most ``n_other`` operations of OPS and between 1 and ``max_rt`` round-trips, simplest first."""
    out = []
    for L in range(1, n_other + max_rt + 1):
        if max_len and L > max_len:
            break
        for w in itertools.product(OPS + RTS, repeat=L):
            nr = sum(1 for x in w if x in RTS)
            if 1 <= nr <= max_rt and L - nr <= n_other:
                out.append(list(w))
    return out


# derived comparison bound for iterative processes: the process stops when its (normalised) residual is below its
# tolerance t; two runs from bitwise different but equally valid states agree to kappa * t with kappa the conditioning
# of the fixed point (<= 10 for Sellar / Sobieski, |dG| < 0.5) times the initial-residual normalisation (<= 10).
ITER_TOL = {"default": 100 * R.MDA_TOL, "SobieskiMDAGaussSeidel": 100 * 1e-6, "SobieskiMDAJacobi": 100 * 1e-6,
            "MDOScenarioAdapter": 1e-6, "MDOObjectiveScenarioAdapter": 1e-6, "OscillatorDiscipline": 1e-6, "ODEDiscipline": 1e-6}


def disc_cases(ctx, catalog):
    """The enumerated (configuration x history) product.  Bound per configuration class (reported in the evidence):

    quick     default grammar x SimpleCache (the default policy): every word with one round-trip and <= 2 other operations (68);
              default grammar x {MemoryFull, HDF5} and every other grammar type x SimpleCache: one round-trip and <= 1 other
              operation (14); other grammar types x {MemoryFull, HDF5}: the 7 of them with the pickle round-trip - followed, as always, by the probes execute(new input), linearize(v1), i.e. depth 3-4 in effect;
              + SimpleCache x every grammar type: 7 grammar-edit words [use, edit, round-trip] (edit = restrict_to / rename /
              add a name / change a default / make optional, on a grammar that has already validated data);
              + every "Class@param=value" subject (one constructor setting away from its default, e.g. dtype=complex128 with
              complex probe inputs): the 7 words with pickle round-trip and <= 1 other operation, default grammar, SimpleCache;
              + full caches: the cache-cursor word [E1, E2, L1, RT] (last accessed entry != newest entry; thorough adds [E1, E2, E1, RT])
    thorough  SimpleCache x every grammar type: every word of length <= 3 with one or two round-trips (108), plus, for the
              default grammar, every word with one round-trip and exactly 3 other operations (216, depth 4);
              default grammar x MemoryFull: the 108 words; default grammar x {HDF5, no cache}: the 68 words;
              other grammar types x {MemoryFull, HDF5, no cache}: the 14 words;
              + 45 grammar-edit words (edit before / after use, before / after the round-trip) and the cache-cursor words
    (an HDF5 case costs ~10x a Simple one: every cache access opens the file and talks to the manager process)
    """
    scales = list(ctx.pick(SCALESETS))
    h_one, h_short = histories(2, 1), histories(1, 1)
    # cache-cursor words: the last *accessed* entry of a full cache differs from the newest one at the round-trip
    # (only a *write* moves the cursor: linearize at an older input stores its Jacobian there; a mere hit does not)
    cursor = lambda rts: [[*w, rt] for rt in rts for w in ((["E1", "E2", "L1"], ["E1", "E2", "E1"]) if ctx.thorough else (["E1", "E2", "L1"],))]  # noqa: E731
    # grammar-edit words: a grammar that has been used, then edited, then serialized (hidden schema / validator caches)
    if ctx.thorough:
        h_main = histories(2, 2, max_len=3)
        h_deep = [h for h in histories(3, 1) if len(h) == 4]
        g_words = ([[u, g, rt] for u in ("E1", "L1") for g in GRAMMAR_EDITS for rt in RTS] + [[g, rt] for g in GRAMMAR_EDITS for rt in RTS]
                   + [["E1", g, rt, "E2"] for g in GRAMMAR_EDITS for rt in RTS] + [["E1", "RP", g, "E2"] for g in GRAMMAR_EDITS])

        def plan(default, cache):
            if cache == "simple":
                return h_main + (h_deep if default else []) + g_words
            if cache == "memF":
                return (h_main if default else h_short) + cursor(RTS) + [["E1", g, "RP"] for g in GRAMMAR_EDITS]
            if default:
                return h_one + (cursor(RTS) if cache == "hdf" else [])
            return h_short

        caches = CACHES + ["none"]
    else:
        g_words = [["E1", g, "RP"] for g in GRAMMAR_EDITS] + [["E1", "GR", "RF"], ["L1", "GR", "RP"]]

        def plan(default, cache):
            if cache == "simple":
                return (h_one if default else h_short) + g_words
            h_rp = [h for h in h_short if "RF" not in h]  # (the cache classes do not depend on the grammar type)
            if cache == "memF":
                return (h_short + cursor(RTS)) if default else (h_rp + cursor(["RP"]))
            return (h_short + cursor(["RP"])) if default else h_rp

        caches = CACHES
    first = {}
    for info in catalog:
        if info["built"]:
            first.setdefault(info["subject"], info["grammar"])
    cases = []
    dev_words = [h for h in h_short if "RF" not in h] if not ctx.thorough else h_short
    for info in catalog:
        if not info["built"]:
            continue
        name = info["subject"]
        tol = ITER_TOL.get(_base_cls(name), ITER_TOL["default"]) if _base_cls(name) in R.ITERATIVE else 0.0
        for cache in caches:
            if "@" in name:  # one constructor setting away from the default: default grammar, SimpleCache (+ MemoryFull in thorough)
                hs = dev_words if cache == "simple" or (ctx.thorough and cache == "memF") else []
            else:
                hs = plan(first[name] == info["grammar"], cache)
            for h in hs:
                if info["lin"][0] == "none" and "L1" in h:
                    continue
                cases.append({"part": "D", "subject": name, "grammar": info["grammar"], "cache": cache, "hist": h, "lin": info["lin"], "scales": scales, "tol": tol})
    # simplest first: short histories, default grammar and cache first
    cases.sort(key=lambda c: (len(c["hist"]), c["grammar"] != "JSONGrammar", caches.index(c["cache"])))
    return cases



# ======================================================================================================
# parts F, P, S: the same engine behind an adapter (props/_c20_twins.py)
# ======================================================================================================
def _adapter(case):
    from props import _c20_twins as T

    helpers = {"observe": observe, "observe_design_space": observe_design_space, "observe_problem": observe_problem, "observe_scenario": observe_scenario}
    part, subject = case["part"], case["subject"]
    if part == "F":
        return T.FunctionAdapter(val, helpers)
    if part == "S":
        return T.ScenarioAdapter(val, helpers)
    return T.DesignSpaceAdapter(val, helpers) if subject.startswith("DesignSpace/") else T.ProblemAdapter(val, helpers)


_BOTH_RAISE = set()


def _try(fn, *a):
    try:
        return ("ok", _snap_out(fn(*a)))
    except Exception as e:  # noqa: BLE001
        return ("raise", type(e).__name__, f"{type(e).__name__}: {str(e)[:300]}")


def _snap_any(o):
    if isinstance(o, (list, tuple)):
        return [_snap_any(x) for x in o]
    return _snap_out(o)


def _cmp_results(r0, rk, tol, label, bad, opk):
    """Compare the outcome of one operation on the original (r0) and on a restored twin (rk)."""
    if r0[0] == "raise" and rk[0] == "raise":
        _BOTH_RAISE.add(f"{opk}: {r0[2][:90]}")
        if r0[1] != rk[1]:
            bad("different-exception", f"{label}: original raises {r0[2]}, restored raises {rk[2]}", op=opk)
        return "both-raise"
    if r0[0] != rk[0]:
        bad("restored-raises" if rk[0] == "raise" else "original-raises-restored-does-not", f"{label} raises on one object only: {(rk if rk[0] == 'raise' else r0)[2]}", op=opk)
        return "bad"
    a, b = _val_tree(r0[1]), _val_tree(rk[1])
    if a == b:
        return "same"
    if tol and _close_tree(r0[1], rk[1], tol):
        return "within-tolerance"
    dd = diff(a, b, limit=4)
    if not dd:
        return "same"
    bad("restored-output-differs" if opk != "L" else "restored-jacobian-differs", f"{label}: " + "; ".join(f"{p}: original {x} restored {y}" for p, x, y in dd), op=opk)
    return "bad"


def _close_tree(a, b, tol):
    if isinstance(a, Mapping) and isinstance(b, Mapping):
        return set(a) == set(b) and all(_close_tree(a[k], b[k], tol) for k in a)
    if isinstance(a, (list, tuple)) and isinstance(b, (list, tuple)):
        return len(a) == len(b) and all(_close_tree(x, y, tol) for x, y in zip(a, b))
    if isinstance(a, float) and isinstance(b, float):
        return abs(a - b) <= tol * (1 + abs(a))
    return close(a, b, tol)


def _twin_case(case, tally):
    """Parts F / P / S: one history on one object kind."""
    ad = _adapter(case)
    hist, tol = case["hist"], case.get("tol", 0.0)
    scratch = case.get("scratch") or _SCRATCH
    i_rt = next(k for k, op in enumerate(hist) if op in RTS)
    position = ad.position(hist[i_rt - 1] if i_rt else None)
    base = {"cls": ad.cls(case), "position": position, **ad.config(case)}
    found = []

    def bad(inv, msg, **extra):
        found.append((inv, extra, msg))

    outcome, n_tr = "ok", 0
    old = _set_grammar(case.get("grammar", "JSONGrammar"))
    try:
        obj = ad.build(case)
        twins = [obj]
        for step, op in enumerate(hist):
            if op in RTS:
                src = twins[-1]
                try:
                    new = roundtrip(src, op, scratch)
                except Exception as e:  # noqa: BLE001
                    b = blame(src)
                    bad("round-trip-raises", f"{op} ({position}) raises {type(e).__name__}: {str(e)[:200]}; unpicklable part: {b}", site=site_of(b), error=type(e).__name__)
                    outcome = "round-trip-raises"
                    break
                n_tr += 1
                for inv, msg in static_violations(ad.observe(src), ad.observe(new), f"right after {op}"):
                    bad(inv, msg)
                twins.append(new)
                continue
            results = [_try(ad.do, t, op, case) for t in twins]
            n_tr += len(twins)
            for k, rk in enumerate(results[1:], 1):
                r = _cmp_results(results[0], rk, tol, f"{op} (step {step}) on restored twin {k}", bad, op[0])
                if r == "within-tolerance":
                    outcome = "ok-within-iteration-tolerance"
                elif r == "both-raise" and outcome == "ok":
                    outcome = "ok-some-operation-raises-on-both"
        else:
            if len(twins) > 1:
                o, r = twins[0], twins[-1]
                exact = tol == 0.0
                for t in twins[1:]:
                    for inv, msg in static_violations(ad.observe(o, exact, False), ad.observe(t, exact, False), "after the same later operations"):
                        bad(inv, msg)
                for op in ad.probes:
                    r0, r1 = _try(ad.do, o, op, case), _try(ad.do, r, op, case)
                    n_tr += 2
                    res = _cmp_results(r0, r1, tol, f"probe {op}", bad, op[0])
                    if res == "within-tolerance":
                        outcome = "ok-within-iteration-tolerance"
                shared, allowed = shared_objects(o, r)
                for why, tn in allowed:
                    tally.sets.setdefault("aliasing_allowed", set()).add(f"{why}: {tn}")
                for pa, pb, tn, note in shared[:5]:
                    bad("shared-mutable-object", f"the same {tn} object is reachable from the original at {pa} and from the restored object at {pb} {note}", what=tn, where=_generic_path(pa))
                before = ad.observe(o, True, False)
                canon_r = digest(repr(ad.observe(r, True, False)))
                try:
                    ad.mutate(r, case)
                except Exception as e:  # noqa: BLE001
                    tally.count(f"mutation-step-refused:{type(e).__name__}")
                for p_, x, y in diff(before, ad.observe(o, True, False))[:4]:
                    bad("mutating-the-restored-object-changes-the-original", f"{p_}: {x} -> {y}")
                tally.sets.setdefault("states", set()).update({digest(repr(before)), canon_r})
    finally:
        _restore_grammar(old)
    if found and outcome != "round-trip-raises":
        outcome = "violation"
    part = case["part"]
    for b in _BOTH_RAISE:
        tally.sets.setdefault("raises_on_both", set()).add(f"{case['subject']}: {b}")
    _BOTH_RAISE.clear()
    tally.case((part, case["subject"], case.get("stage"), case.get("grammar"), case.get("cache"), tuple(hist)), nontrivial=any(op not in RTS for op in hist), outcome=f"{part}:{outcome}",
               sample={k: case[k] for k in ("part", "subject", "stage", "grammar", "cache", "hist") if k in case} if len(hist) == 3 else None)
    tally.traces += 1
    tally.transitions += n_tr
    for inv, extra, msg in found:
        sig = {"invariant": inv, **extra} if inv == "round-trip-raises" else {"invariant": inv, **base, **extra}
        tally.sets.setdefault("subjects:" + _fixed_key(sig), set()).add(case["subject"])
        tally.violation(sig, case, f"{inv}: {case['subject']} {ad.config(case)} history {hist}: {msg}")


def words(ops, n_other, max_rt=1, max_len=None):
    out = []
    for L in range(1, n_other + max_rt + 1):
        if max_len and L > max_len:
            break
        for w in itertools.product(list(ops) + RTS, repeat=L):
            nr = sum(1 for x in w if x in RTS)
            if 1 <= nr <= max_rt and L - nr <= n_other:
                out.append(list(w))
    return out


def twin_cases(ctx, only):
    from props import _c20_twins as T

    X = ctx.pick(T.XSETS)
    full = words(OPS, 2, 1) if not ctx.thorough else words(OPS, 2, 2, max_len=3) + [h for h in words(OPS, 3, 1) if len(h) == 4]
    short = words(OPS, 1, 1) if not ctx.thorough else words(OPS, 2, 2, max_len=3)
    cases = []
    if "F" in only:
        for name in T.FUNCS:
            cases += [{"part": "F", "subject": name, "hist": h, "X": X} for h in full]
    if "P" in only:
        for kind in ("float", "mixed", "novalue", "ParameterSpace"):
            cases += [{"part": "P", "subject": f"DesignSpace/{kind}", "hist": h, "X": X} for h in full]
        for kind in T.PROBLEM_KINDS:
            for stage in T.STAGES:
                hs = full if kind == "base" else short
                cases += [{"part": "P", "subject": f"OptimizationProblem/{kind}", "stage": stage, "hist": h, "X": X} for h in hs]
    if "S" in only:
        sw_one = words(("X",), 2, 1)
        sw_full = sw_one if not ctx.thorough else words(("X",), 2, 2, max_len=3) + [h for h in words(("X",), 3, 1) if len(h) == 4]
        sw_short = [h for h in sw_one if "RF" not in h] if not ctx.thorough else sw_one
        for name in T.SCENARIOS:
            tol = 1e-6 if name in T.ITERATIVE_SCENARIOS else 0.0
            for g in (GRAMMARS_THOROUGH if ctx.thorough else GRAMMARS_QUICK):
                if g == "PydanticGrammar":
                    continue
                for cache in ("simple", "memF"):
                    hs = sw_full if (g == "JSONGrammar" and cache == "simple") else sw_short
                    cases += [{"part": "S", "subject": name, "grammar": g, "cache": cache, "hist": h, "tol": tol} for h in hs]
    cases.sort(key=lambda c: (len(c["hist"]), c["part"]))
    return cases



# ======================================================================================================
# part X: the object is pickled in one interpreter and restored in others (other string-hash seeds)
# ======================================================================================================
# "as done implicitly by multiprocessing and explicitly by the save/load helpers": the restoring process is not the
# creating one.  Anything rebuilt at restore from an unordered collection (a set of symbols, of names ...) is ordered
# by the string-hash seed of the *restoring* interpreter, which a round-trip inside one process can never show.
XPROC_SEEDS = ("0", "101", "202")  # PYTHONHASHSEED of the saving interpreter and of the restoring ones

_X_SCRIPT = """import sys
sys.path[:0] = [{src!r}, {root!r}]
sys.path.append({vendor!r})
import logging, warnings
logging.disable(logging.CRITICAL)
warnings.filterwarnings("ignore")
from props import c20
c20.xproc_main(sys.argv[1], sys.argv[2], sys.argv[3])
"""


def _x_handlers(job):
    """(build() -> (obj, aux), do(obj, op, aux), observe(obj)) for one job of part X."""
    if job["part"] == "D":
        def build():
            old = _set_grammar(job["grammar"])
            try:
                d = R.build(job["subject"], None)
            finally:
                _restore_grammar(old)
            _set_cache(d, job.get("cache", "simple"), None)
            _apply_lin_mode(d, job["lin"])
            return d, {"V": [_inputs(d, sc) for sc in job["scales"]]}

        return build, (lambda d, op, aux: _do(d, op, aux["V"], job["lin"])), (lambda d: observe(d))
    ad = _adapter(job)

    def build2():
        old = _set_grammar(job.get("grammar", "JSONGrammar"))
        try:
            return ad.build(job), {}
        finally:
            _restore_grammar(old)

    return build2, (lambda o, op, aux: _try(ad.do, o, op, job)), (lambda o: ad.observe(o))


def _portable(o):
    """A result that can be sent to another interpreter: containers, arrays, sparse matrices and scalars as they are,
    anything else (e.g. a matrix-free Jacobian operator) through its canonical rendering."""
    if isinstance(o, Mapping):
        return {k: _portable(v) for k, v in o.items()}
    if isinstance(o, (list, tuple)):
        return type(o)(_portable(v) for v in o) if type(o) in (list, tuple) else [_portable(v) for v in o]
    if isinstance(o, (np.ndarray, np.generic, str, bytes, int, float, complex, bool, type(None))) or _is_sparse(o):
        return o
    return val(o)


def xproc_main(mode, jobs_file, work):
    """Runs inside a fresh interpreter: mode 'save' (build, prefix, pickle, continue) or 'load:<tag>' (restore, continue)."""
    import json

    jobs = json.load(open(jobs_file))
    for i, job in enumerate(jobs):
        out = {}
        obj_path, aux_path = os.path.join(work, f"obj_{i}.pkl"), os.path.join(work, f"aux_{i}.pkl")
        try:
            build, do, obs = _x_handlers(job)
            if mode == "save":
                try:
                    obj, aux = build()
                    for op in job["prefix"]:
                        do(obj, op, aux)
                except Exception:  # noqa: BLE001
                    out["build_error"] = traceback.format_exc()[-600:]
                else:
                    try:
                        if job["rt"] == "RP":
                            with open(obj_path, "wb") as f:
                                pickle.dump(obj, f)
                        else:
                            from gemseo.utils.pickle import to_pickle

                            to_pickle(obj, obj_path)
                        with open(aux_path, "wb") as f:
                            pickle.dump(aux, f)
                    except Exception as e:  # noqa: BLE001
                        out["pickle_error"] = f"{type(e).__name__}: {str(e)[:200]}; unpicklable part: {blame(obj)}"
                    else:
                        out["obs"] = obs(obj)
                        out["results"] = [_portable(do(obj, op, aux)) for op in job["suffix"]]
            else:
                if not os.path.exists(obj_path):
                    out["skipped"] = True
                else:
                    try:
                        if job["rt"] == "RP":
                            with open(obj_path, "rb") as f:
                                obj = pickle.load(f)
                        else:
                            from gemseo.utils.pickle import from_pickle

                            obj = from_pickle(obj_path)
                        with open(aux_path, "rb") as f:
                            aux = pickle.load(f)
                    except Exception as e:  # noqa: BLE001
                        out["restore_error"] = f"{type(e).__name__}: {str(e)[:300]}"
                    else:
                        out["obs"] = obs(obj)
                        out["results"] = [_portable(do(obj, op, aux)) for op in job["suffix"]]
        except Exception:  # noqa: BLE001
            out["harness_error"] = traceback.format_exc()[-800:]
        tag = "ref" if mode == "save" else mode.split(":")[1]
        with open(os.path.join(work, f"res_{tag}_{i}.pkl"), "wb") as f:
            pickle.dump(out, f)


def _xproc_chunk(case, tally):
    """One batch of part-X jobs: 1 saving interpreter + 1 restoring interpreter per other hash seed."""
    import json
    import shutil
    import subprocess
    import tempfile

    jobs = case["jobs"]
    scratch = case.get("scratch") or _SCRATCH
    work = tempfile.mkdtemp(prefix="c20x_", dir=scratch)
    root = os.path.dirname(os.path.dirname(os.path.abspath(__file__)))
    try:
        script, jobs_file = os.path.join(work, "xproc.py"), os.path.join(work, "jobs.json")
        with open(script, "w") as f:
            f.write(_X_SCRIPT.format(src=os.environ.get("VERIF_REPO_SRC", "/repo/src"), root=root, vendor=os.path.join(root, "vendor")))
        with open(jobs_file, "w") as f:
            json.dump(jsonable(jobs), f)
        seeds = case.get("seeds") or list(XPROC_SEEDS)
        def launch(k, seed):
            env = dict(os.environ, PYTHONHASHSEED=seed, PYTHONDONTWRITEBYTECODE="1")
            return subprocess.Popen([sys.executable, script, "save" if k == 0 else f"load:{seed}", jobs_file, work], env=env, stdout=subprocess.DEVNULL, stderr=subprocess.PIPE, text=True)

        procs = [launch(0, seeds[0])]
        procs[0].wait(timeout=1500)
        procs += [launch(k, seed) for k, seed in enumerate(seeds[1:], 1)]  # the restoring interpreters are independent of each other
        for k, p in enumerate(procs):
            err = p.communicate(timeout=1500)[1]
            if p.returncode != 0:
                tally.violation({"invariant": "harness-error", "where": "part X interpreter"}, {"part": "X", "jobs": jobs[:1]}, f"interpreter {k} exited with {p.returncode}: {(err or '')[-1500:]}")
                return
        for i, job in enumerate(jobs):
            ref = pickle.load(open(os.path.join(work, f"res_ref_{i}.pkl"), "rb"))
            cls = job["subject"] if job["part"] in ("D", "P", "S") else "MDOFunction:" + job["subject"]
            if job["part"] == "D":
                cls = job["subject"].split("/")[0]
            pos = "fresh" if not job["prefix"] else ("after-linearize" if job["prefix"][-1][0] == "L" else "after-execute")
            base = {"cls": cls, "position": pos, "process": "another-interpreter", **{a: job[a] for a in ("grammar", "cache", "stage") if a in job}}
            found = []

            def bad(inv, msg, **extra):
                found.append((inv, extra, msg))

            outcome = "ok"
            if "harness_error" in ref or "build_error" in ref:
                tally.violation({"invariant": "harness-error", "where": "part X build"}, {"part": "X", "jobs": [job]}, ref.get("harness_error") or ref.get("build_error"))
                continue
            if "pickle_error" in ref:
                outcome = "round-trip-raises (reported by the in-process parts, which enumerate the same prefix)"
            else:
                tally.sets.setdefault("states", set()).add(digest(repr(ref["obs"])))
                for seed in seeds[1:]:
                    res = pickle.load(open(os.path.join(work, f"res_{seed}_{i}.pkl"), "rb"))
                    tally.transitions += 1 + len(job["suffix"])
                    if "harness_error" in res:
                        tally.violation({"invariant": "harness-error", "where": "part X restore"}, {"part": "X", "jobs": [job]}, res["harness_error"])
                        continue
                    if "restore_error" in res:
                        bad("restore-raises-in-another-process", f"PYTHONHASHSEED={seed}: {res['restore_error']}")
                        continue
                    for inv, msg in static_violations(ref["obs"], res["obs"], f"restored in another interpreter (PYTHONHASHSEED {seeds[0]} -> {seed})"):
                        bad(inv, msg)
                    for op, r0, r1 in zip(job["suffix"], ref["results"], res["results"]):
                        r = _cmp_results(r0, r1, job.get("tol", 0.0), f"{op} after a restore in another interpreter (PYTHONHASHSEED {seeds[0]} -> {seed})", bad, op[0])
                        if r == "within-tolerance":
                            outcome = "ok-within-iteration-tolerance"
                _BOTH_RAISE.clear()
            if found:
                outcome = "violation"
            hist = [*job["prefix"], job["rt"], *job["suffix"]]
            tally.case(("X", job["part"], job["subject"], job.get("stage"), job.get("grammar"), job.get("cache"), tuple(hist)), nontrivial=True, outcome=f"X:{outcome}",
                       sample={"part": "X", "subject": job["subject"], "hist": hist} if i < 2 else None)
            tally.traces += 1
            for inv, extra, msg in found:
                sig = {"invariant": inv, **extra} if inv == "round-trip-raises" else {"invariant": inv, **base, **extra}
                tally.sets.setdefault("subjects:" + _fixed_key(sig), set()).add(job["subject"])
                tally.violation(sig, {"part": "X", "jobs": [job]}, f"{inv}: {job['subject']} [{job.get('grammar', '')}] history {hist}: {msg}")
    finally:
        shutil.rmtree(work, ignore_errors=True)


def xproc_cases(ctx, catalog, only):
    """Jobs of part X: (prefix, round-trip kind, suffix) per subject; batched so that a few interpreters serve them all."""
    from props import _c20_twins as T

    scales, X = list(ctx.pick(SCALESETS)), ctx.pick(T.XSETS)
    combos = [([], "RF", ["E1", "L1", "E3"]), (["E1", "L1"], "RP", ["E2", "L1", "E3"])]
    if ctx.thorough:
        combos += [([], "RP", ["E1", "L1", "E3"]), (["E1"], "RF", ["L1", "E2", "E3"]), (["E1", "E2", "L1"], "RP", ["E2", "L1", "E3"])]
    jobs = []
    if "D" in only:
        first = {}
        for info in catalog:
            if info["built"]:
                first.setdefault(info["subject"], info["grammar"])
        for info in catalog:
            if not info["built"] or first[info["subject"]] != info["grammar"]:
                continue
            name = info["subject"]
            tol = ITER_TOL.get(_base_cls(name), ITER_TOL["default"]) if _base_cls(name) in R.ITERATIVE else 0.0
            for cache in (["simple", "memF"] if ctx.thorough and "@" not in name else ["simple"]):
                for pre, rt, suf in (combos if "@" not in name else combos[1:2]):
                    strip = (lambda ops: [o for o in ops if o[0] != "L"]) if info["lin"][0] == "none" else (lambda ops: list(ops))
                    jobs.append({"part": "D", "subject": name, "grammar": info["grammar"], "cache": cache, "lin": info["lin"], "scales": scales, "tol": tol,
                                 "prefix": strip(pre), "rt": rt, "suffix": strip(suf), "cost": info.get("cost_s", 0.05)})
    if "F" in only:
        for name in T.FUNCS:
            jobs += [{"part": "F", "subject": name, "X": X, "prefix": pre, "rt": rt, "suffix": suf, "cost": 0.01} for pre, rt, suf in combos]
    if "P" in only:
        for kind in ("float", "mixed", "novalue", "ParameterSpace"):
            jobs += [{"part": "P", "subject": f"DesignSpace/{kind}", "X": X, "prefix": pre, "rt": rt, "suffix": suf, "cost": 0.01} for pre, rt, suf in combos]
        for kind in T.PROBLEM_KINDS:
            for stage in T.STAGES:
                for pre, rt, suf in (combos if ctx.thorough or kind == "base" else combos[1:2]):
                    jobs.append({"part": "P", "subject": f"OptimizationProblem/{kind}", "stage": stage, "X": X, "prefix": pre, "rt": rt, "suffix": [*suf, "X"], "cost": 0.05})
    if "S" in only:
        for name in T.SCENARIOS:
            tol = 1e-6 if name in T.ITERATIVE_SCENARIOS else 0.0
            for pre, rt, suf in [([], "RP", ["X"]), (["X"], "RF", ["X"])]:
                jobs.append({"part": "S", "subject": name, "grammar": "JSONGrammar", "cache": "simple", "tol": tol, "prefix": pre, "rt": rt, "suffix": suf, "cost": 0.5})
    # batches of similar total cost (an interpreter start costs a few seconds: few batches)
    n = max(2, min(len(jobs), ctx.jobs // 2 if not ctx.thorough else ctx.jobs))
    jobs.sort(key=lambda j: -j["cost"])
    batches = [[] for _ in range(n)]
    loads = [0.0] * n
    for j in jobs:
        k = loads.index(min(loads))
        batches[k].append(j)
        loads[k] += j["cost"]
    return [{"part": "X", "jobs": b} for b in batches if b]


# ======================================================================================================
# aggregation of raw violations: one signature per defect site
# ======================================================================================================
AXES = ("position", "grammar", "cache", "stage")


def _fixed_key(sig):
    return repr(sorted((k, str(x)) for k, x in sig.items() if k not in AXES or "cls" not in sig))


def aggregate(raw, tally, axes_values):
    """Generalise (position, grammar, cache) of the raw signatures: an axis on which every enumerated value fails
    becomes 'any'; the simplest failing case is kept as the witness."""
    groups = {}
    for v in raw.violations.values():
        sig = v["signature"]
        if sig.get("invariant") in ("round-trip-raises", "harness-error", "harness-timeout") or "cls" not in sig:
            key = tuple(sorted((k, str(x)) for k, x in sig.items()))
            g = groups.setdefault(key, {"fixed": dict(sig), "members": [], "axes": None})
        else:
            fixed = {k: x for k, x in sig.items() if k not in AXES}
            key = tuple(sorted((k, str(x)) for k, x in fixed.items()))
            g = groups.setdefault(key, {"fixed": fixed, "members": [], "axes": {a: set() for a in AXES if a in sig}})
            for a in g["axes"]:
                g["axes"][a].add(sig.get(a))
        g["members"].append(v)
    merged = []
    for g in groups.values():
        first = g["members"][0]
        sig = dict(g["fixed"])
        if g["axes"] is not None:
            cls = sig.get("cls")
            for a, vals in g["axes"].items():
                allv = axes_values.get((cls, a)) or set()
                sig[a] = "any" if (allv and vals >= allv and len(allv) > 1) else "|".join(sorted(str(x) for x in vals))
        n = sum(m["count"] for m in g["members"])
        subjects = sorted(raw.sets.get("subjects:" + _fixed_key(first["signature"]), ()) or {str(m["case"].get("subject")) for m in g["members"] if isinstance(m["case"], dict)})
        merged.append([sig, first, n, subjects])
    # the same violation in many classes is one finding about their common base: one signature, classes listed
    by_shape = {}
    for item in merged:
        by_shape.setdefault(sigkey_without_cls(item[0]), []).append(item)
    for items in by_shape.values():
        if len(items) >= 4 and "cls" in items[0][0]:
            sig = {**items[0][0], "cls": "many"}
            classes = sorted({i[0]["cls"] for i in items})
            items = [[sig, items[0][1], sum(i[2] for i in items), classes]]
        for sig, first, n, subjects in items:
            tally.violation(sig, first["case"], first["message"] + f"\n  [{n} failing case(s); subjects: {', '.join(subjects[:60])}]")
            tally.violations[next(reversed(tally.violations))]["count"] = n


def sigkey_without_cls(sig):
    return repr(sorted((k, str(v)) for k, v in sig.items() if k != "cls"))


def run(ctx):
    global _SCRATCH
    _SCRATCH = ctx.scratch
    tally = ctx.tally
    groups = []
    only = (ctx.only or "DSFPX").split(":")[0]  # parts to run; "--only DX:Sellar1,MDOChain" restricts the classes of part D
    catalog = []
    scales = list(ctx.pick(SCALESETS))
    bounds = {}
    raw = Tally()
    axes_values = {}
    if "D" in only or "X" in only:
        classes, names, not_built = R.subject_names()
        if ctx.only and ":" in ctx.only:
            names = [n for n in names if _base_cls(n) in ctx.only.split(":")[1].split(",")]
        grammars = GRAMMARS_THOROUGH if ctx.thorough else GRAMMARS_QUICK
        devs = R.deviation_names()
        if ctx.only and ":" in ctx.only:
            devs = [n for n in devs if _base_cls(n) in ctx.only.split(":")[1].split(",")]
        catalog = pmap_raw(_catalog_one, [(n, g, scales) for g in grammars for n in names] + [(n, grammars[0], scales) for n in devs], jobs=ctx.jobs)
        tally.notes["constructor_setting_deviations"] = devs
        # a class whose grammars come from files ignores the requested type: keep one configuration per obtained type
        seen = set()
        for info in catalog:
            if info["built"]:
                k = (info["subject"], info["grammar_obtained"] if info["grammar_obtained"] != info["grammar"] else info["grammar"])
                if info["grammar_obtained"] != info["grammar"] and (info["subject"], info["grammar_obtained"]) in seen:
                    info["built"], info["why"] = False, f"same configuration as {info['grammar_obtained']} (the class fixes its grammar type)"
                seen.add(k)
        tally.notes["factory_classes"] = len(classes)
        tally.notes["classes_not_built"] = not_built
        tally.notes["subjects"] = sorted({i["subject"] for i in catalog if i["built"]})
        tally.notes["not_built_with_grammar"] = {g: {i["subject"]: i.get("why", "") for i in catalog if i["grammar"] == g and not i["built"]} for g in grammars}
        tally.notes["linearization_mode"] = {i["subject"]: i["lin"][0] for i in catalog if i["built"] and i["grammar"] == "JSONGrammar"}
        tally.notes["cache_alphabet"] = CACHES + ["(MemoryFullCache(is_memory_shared=True) shares its manager dictionaries by documentation: excluded)"]
        cases = disc_cases(ctx, catalog) if "D" in only else []
        for c in cases:
            cls = c["subject"].split("/")[0]
            axes_values.setdefault((cls, "position"), set()).add(_position(c["hist"]))
            axes_values.setdefault((cls, "grammar"), set()).add(c["grammar"])
            axes_values.setdefault((cls, "cache"), set()).add(c["cache"])
        per_cfg = {}
        for c in cases:
            per_cfg.setdefault((c["subject"], c["grammar"], c["cache"]), []).append(len(c["hist"]))
        if cases:
          bounds["D"] = {"subjects": len(tally.notes["subjects"]), "configurations": len(per_cfg), "cases": len(cases),
                         "histories_per_configuration": {"min": min(map(len, per_cfg.values())), "max": max(map(len, per_cfg.values()))},
                         "max_history_length": max(len(c["hist"]) for c in cases), "plan": disc_cases.__doc__.split("\n\n")[1].strip() if disc_cases.__doc__ else ""}
        groups += [{"cases": cases[i:i + 24]} for i in range(0, len(cases), 24)]
    rest = "".join(c for c in only if c in "FPS")
    if rest:
        cases2 = twin_cases(ctx, rest)
        for c in cases2:
            ad_cls = c["subject"] if c["part"] != "F" else "MDOFunction:" + c["subject"]
            i_rt = next(k for k, op in enumerate(c["hist"]) if op in RTS)
            axes_values.setdefault((ad_cls, "position"), set()).add(_adapter(c).position(c["hist"][i_rt - 1] if i_rt else None))
            for a in ("grammar", "cache", "stage"):
                if a in c:
                    axes_values.setdefault((ad_cls, a), set()).add(c[a])
        for part in rest:
            sub = [c for c in cases2 if c["part"] == part]
            bounds[part] = {"subjects": len({c["subject"] for c in sub}), "configurations": len({(c["subject"], c.get("stage"), c.get("grammar"), c.get("cache")) for c in sub}),
                            "cases": len(sub), "max_history_length": max(len(c["hist"]) for c in sub)}
        groups += [{"cases": cases2[i:i + 12]} for i in range(0, len(cases2), 12)]
    if "X" in only:
        xcases = xproc_cases(ctx, catalog, only if ctx.only and only != "X" else "DFPS")
        bounds["X"] = {"jobs": sum(len(c["jobs"]) for c in xcases), "batches": len(xcases), "interpreters": 3 * len(xcases), "hash_seeds": list(XPROC_SEEDS),
                       "words": "prefix, round-trip, suffix: ([], RF, [E1, L1, E3]) and ([E1, L1], RP, [E2, L1, E3]) per subject (thorough: 5 words, + MemoryFull)"}
        groups = [{"cases": [c]} for c in xcases] + groups  # started first: each batch is a chain of 3 interpreters
    pmap(_run_group, groups, raw, jobs=ctx.jobs, chunk=1, timeout=3000)
    aggregate(raw, tally, axes_values)
    raw.violations = {}
    tally.merge(raw)
    tally.states += len(tally.sets.get("states", ()))
    tally.notes["aliasing_allowed"] = sorted(tally.sets.get("aliasing_allowed", ()))
    tally.notes["operations_raising_on_original_and_restored_alike"] = sorted(tally.sets.get("raises_on_both", ()))[:80]
    return {
        "level": LEVEL,
        "rule": "every word over {execute(v1), execute(v2), linearize(v1), pickle round-trip, to_pickle/from_pickle} within the bound (bounds.*), on every buildable "
                "class of the discipline and MDA factories x grammar type x cache type (D), on MDOFunction trees (F: evaluate / jac), design spaces and optimization problems "
                "at 4 stages of their life (P) and MDO/DOE scenarios (S: the operation is execute); a round-trip adds a restored twin and later operations run on all twins; "
                "non-trivial = the word contains at least one operation besides the round-trip; states = distinct observable end states, transitions = operations and "
                "round-trips executed on real objects, traces = words executed",
        "exhaustive": True,
        "bounds": bounds,
        "assumptions": ["value alphabet: default inputs scaled by s and shifted by (s-1)/2 for 3 factors s (v1, v2, probe); 3 alphabets rotated by VERIF_SEED",
                        "classes needing Excel, a job scheduler or an external executable are not built (listed in classes_not_built)",
                        "iterative processes (MDA, ODE, inner optimization) are compared within a bound derived from their tolerance; everything else bitwise"],
    }


def _run_case(case, tally):
    part = case.get("part", "D")
    if part == "D":
        _disc_case(case, tally)
    elif part == "X":
        _xproc_chunk(case, tally)
    else:
        _twin_case(case, tally)


def _run_group(group, tally):
    """A group of cases handled by one worker call; a harness error in one case never hides the others."""
    for case in group["cases"]:
        try:
            _run_case(case, tally)
        except Exception:  # noqa: BLE001
            tally.violation({"invariant": "harness-error", "where": traceback.format_exc().strip().splitlines()[-1][:120]}, case if case.get("part") != "X" else {"part": "X", "jobs": case["jobs"][:1]},
                            traceback.format_exc())


def replay(case, ctx):
    global _SCRATCH
    _SCRATCH = ctx.scratch
    t = Tally()
    _run_case(case, t)
    return {"outcomes": dict(t.outcomes), "violations": [v["message"] for v in t.violations.values()]}
