"""C16 - derivative approximations are accurate to their order and respect bounds (engine E2).

Part A (approximator level): the full product
    approximator {FirstOrderFD, CenteredDifferences, ComplexStep}
  x test function (separable-term functions with derivative bounds derived term by term)
  x point class (interior, zero components, on the upper bound, on the lower bound, within one step of the
    upper bound; thorough adds near the lower bound, all components on the upper bound, mixed)
  x step (two scalars, one per-component vector of the length of x)
  x how the step is given (f_gradient(step=...) / constructor)
  x x_indices (the default and every non-empty subset)
  x parallel (off / on = 2 processes; the quick tier crosses parallel=on with step in {first scalar, vector} given at
    call only - each parallel run costs ~60 ms of process start-up; the thorough tier runs the full product)
  x design space (none / bounded with normalize off / bounded with normalize on)
Part B (discipline level): Discipline.linearize in the three approximation modes (B1),
Discipline.check_jacobian(indices=...) on a correct Jacobian and on Jacobians wrong in exactly one selected
entry (B2), DisciplineJacApprox.compute_approx_jac(x_indices=...) placement of partial Jacobians (B3).

Oracle = shape, entry-wise theoretical error bound, log of every point the function is called at.

Derivation of the tolerances (all in the coordinates the approximator works in; h = step of component j)
---------------------------------------------------------------------------------------------------------
Every test function is F_i(x) = sum_t c_t prod_j phi_tj(x_j) with phi in {1, t^p, exp(at), sin(at), cos(at)}.
Partial derivatives of any order along one coordinate are again of this form, so on the box
|x_j| <= B_j (B_j = max(|lb_j|, |ub_j|) + MARGIN; every evaluation point stays inside, checked)
    |d^k F_i / dx_j^k| <= M_k[i, j] := sum_t |c_t| bound(phi_tj^(k)) prod_{l != j} bound(phi_tl),
    FABS[i] := M_0.
With a normalized design space the approximator differentiates g(z) = F(lb + z * span):
    d^k g / dz_j^k = span_j^k d^k F / dx_j^k.
Taylor with Lagrange remainder:
    forward/backward quotient :  |err| <= h/2   * M_2
    centered quotient         :  |err| <= h^2/6 * M_3
    one-sided/asymmetric two-point quotient with arms a in [0, h] and h (what centered differences may fall back
    to at a bound):  |err| <= h/2 * M_2 + h^2/6 * M_3
    complex step, perturbation i*delta: Im F(x + i delta e_j)/delta = F' - delta^2/6 F''' + ..., |err| <= 1.01 * delta^2/6 * M_3.
Rounding (EPS = 2^-52):
    * F is evaluated with <= 4n+2 roundings per term (argument products, elementary functions <= 2 ulp, factor
      products, coefficient) and <= 8 terms are summed: |fl(F) - F| <= K * EPS * FABS with K = 32 (n <= 4);
      the same count bounds the imaginary part in complex arithmetic (K * EPS * M_1) and the reference derivative.
    * the perturbed point fl(x_j + h) (and, when normalized, fl(lb + z * span)) is off by <= 3 EPS * XMAX per
      evaluation point, i.e. <= 6 EPS * XMAX * M_1 in the difference of the two values; FirstOrderFD divides by
      the nominal step.
    R = (2 K EPS FABS + 6 EPS XMAX M_1) / h     (divided by 2h for the two-sided centered quotient)
No constant is tuned: a tolerance is truncation bound + R + reference rounding.

Oracle boundaries
-----------------
* CenteredDifferences with a design space at a component within one step of a bound (x_j + h > ub_j or
  x_j - h < lb_j) cannot be both second order and inside the bounds with two evaluations: held to the
  asymmetric/one-sided bound above.  Without design space it is always held to second order.
* The statement only protects upper bounds: evaluations below a lower bound are counted, never flagged.
* ComplexStep: the step is documented as a scalar (DisciplineJacApprox: "The complex_step method takes either a
  complex or a float"); per-component step vectors are not enumerated for it.  Its step is relative
  (delta = |x_j| * step, or step when x_j == 0), the bound uses that delta.
* Per-component step vectors have the length of x (DisciplineJacApprox enforces it, compute_optimal_step
  produces it, "one step by input component"); a vector of the length of the subset is not enumerated.
* parallel=True means processes: CallableParallelExecution documents (and enforces with a ValueError) that
  thread workers must be distinct objects, which the approximators (n times the same bound method) are not -
  every approximator, and Discipline.check_jacobian(parallel=True, use_threading=True), raises that ValueError.
  The call log lives in fork-shared memory so that the bound oracle also sees the children's evaluations.
* x_indices is enumerated as sorted subsets (the statement says "subset"; column order of a permuted
  selection is not specified).
* check_jacobian(auto_set_step=True): the accuracy then depends on gemseo's own step estimate, for which the
  statement gives no bound; not enumerated (a witness through that path is quoted in the report only).
* check_jacobian on a Jacobian wrong in a NOT selected entry: not specified by the statement, not checked.
* Discipline-level parallel differentiation uses processes (threads on one discipline are documented unsafe).
"""
from __future__ import annotations

import itertools
import math
import multiprocessing
import os
import queue as _queue
import time
import traceback

import numpy as np

from mc import product
from mc.core import Tally, chunks, pmap

LEVEL = "exploration"


class HarnessError(Exception):
    """The harness itself is inconsistent (never a property violation, never a silent pass)."""


EPS = 2.0 ** -52
K_ROUND = 32.0
MARGIN = 0.01  # the box on which the derivative bounds hold is the design box enlarged by MARGIN (> any step)
CLASSNAME = {"FD": "FirstOrderFD", "CD": "CenteredDifferences", "CS": "ComplexStep"}
MODE = {"FD": "finite_differences", "CD": "centered_differences", "CS": "complex_step"}

# ------------------------------------------------------------------------------------------------------
# value alphabets (rotated by VERIF_SEED; the enumerated structure never changes)
# ------------------------------------------------------------------------------------------------------
ALPHABETS = [
    {"steps": (1e-4, 1e-6), "vec": (1e-4, 1e-5, 1e-6, 3e-5), "cs_steps": (1e-20, 1e-30), "interior": (0.575, 0.22, 0.7, 0.41), "near": 0.5},
    {"steps": (1e-3, 1e-5), "vec": (1e-5, 1e-3, 1e-4, 1e-6), "cs_steps": (1e-20, 1e-25), "interior": (0.31, 0.64, 0.45, 0.83), "near": 0.25},
    {"steps": (3e-4, 2e-6), "vec": (2e-6, 3e-4, 5e-5, 1e-5), "cs_steps": (1e-30, 1e-15), "interior": (0.79, 0.36, 0.28, 0.62), "near": 0.9},
]


# ------------------------------------------------------------------------------------------------------
# test functions: sums of products of univariate factors, with exact derivatives and derived bounds
# ------------------------------------------------------------------------------------------------------
def _fac_eval(f, t):
    if f is None:
        return 1.0
    k = f[0]
    if k == "p":
        r = t
        for _ in range(f[1] - 1):
            r = r * t
        return r
    if k == "e":
        return np.exp(f[1] * t)
    if k == "s":
        return np.sin(f[1] * t)
    if k == "c":
        return np.cos(f[1] * t)
    raise ValueError(f)


def _fac_diff(f):
    """d/dt of a factor -> (multiplier, factor); multiplier 0.0 means the zero function."""
    if f is None:
        return 0.0, None
    k = f[0]
    if k == "p":
        return float(f[1]), (("p", f[1] - 1) if f[1] > 1 else None)
    if k == "e":
        return float(f[1]), f
    if k == "s":
        return float(f[1]), ("c", f[1])
    if k == "c":
        return -float(f[1]), ("s", f[1])
    raise ValueError(f)


def _fac_bound(f, B):
    if f is None:
        return 1.0
    k = f[0]
    if k == "p":
        return B ** f[1]
    if k == "e":
        return math.exp(abs(f[1]) * B)
    return 1.0


def _diff_terms(terms, j):
    out = []
    for c, facs in terms:
        mult, nf = _fac_diff(facs[j])
        if mult == 0.0:
            continue
        facs2 = list(facs)
        facs2[j] = nf
        out.append((c * mult, tuple(facs2)))
    return out


def _eval_terms(terms, x):
    s = 0.0
    for c, facs in terms:
        v = c
        for j, f in enumerate(facs):
            if f is not None:
                v = v * _fac_eval(f, x[j])
        s = s + v
    return s


def _bound_terms(terms, B):
    s = 0.0
    for c, facs in terms:
        v = abs(c)
        for j, f in enumerate(facs):
            v *= _fac_bound(f, B[j])
        s += v
    return s


def _mono(c, *exps):
    return (float(c), tuple(("p", e) if e else None for e in exps))


class TestFn:
    def __init__(self, name, outs, lb, ub, scalar_out=False):
        self.name = name
        self.outs = outs
        self.n = len(lb)
        self.m = len(outs)
        self.scalar_out = scalar_out  # the callable returns a 0-d number (as scalar MDOFunctions do)
        self.lb = np.array(lb, dtype=float)
        self.ub = np.array(ub, dtype=float)
        self.span = self.ub - self.lb
        self.B = np.maximum(np.abs(self.lb), np.abs(self.ub)) + MARGIN
        self.xmax = float(self.B.max())
        self._d = {0: [[o] * self.n for o in outs]}
        for k in (1, 2, 3):
            self._d[k] = [[_diff_terms(self._d[k - 1][i][j], j) for j in range(self.n)] for i in range(self.m)]
        self._bounds = {k: np.array([[_bound_terms(self._d[k][i][j], self.B) for j in range(self.n)] for i in range(self.m)]) for k in (0, 1, 2, 3)}
        assert len(max(outs, key=len)) <= 8 and self.n <= 4  # premises of K_ROUND

    def value(self, x):
        v = [_eval_terms(o, x) for o in self.outs]
        if self.scalar_out:
            return np.asarray(v[0])[()]
        return np.array(v)

    def jac(self, x):
        return np.array([[float(np.real(_eval_terms(self._d[1][i][j], x))) for j in range(self.n)] for i in range(self.m)])

    def bound(self, k):
        """(m, n) array: bound of |d^k F_i / dx_j^k| on the enlarged box (k = 0: |F_i|, any column)."""
        return self._bounds[k]


_BOX3 = ([-2.0, -1.0, -1.5], [2.0, 1.5, 1.0])
_BOX2 = ([-2.0, -1.0], [2.0, 1.5])
_QUAD2 = [[_mono(1.5, 2, 0), _mono(-2, 1, 1), _mono(0.5, 0, 2), _mono(3, 1, 0), _mono(-1, 0, 1), _mono(0.25, 0, 0)]]
FUNCS = {
    f.name: f
    for f in [
        # cubic, 3 variables, 2 outputs (m != n)
        TestFn("cubic3", [[_mono(1, 3, 0, 0), _mono(2, 1, 1, 0), _mono(-1, 0, 0, 2)], [_mono(1, 1, 1, 1), _mono(1, 0, 2, 0)]], *_BOX3),
        # cubic, 2 variables, 2 outputs (m == n)
        TestFn("sq2", [[_mono(1, 3, 0), _mono(-1, 1, 2)], [_mono(1, 2, 1), _mono(2, 0, 1)]], [-1.0, -2.0], [1.5, 2.0]),
        # quadratic, 2 variables, one output returned as a (1,) array / as a 0-d scalar
        TestFn("quad2", _QUAD2, *_BOX2),
        TestFn("quad2s", _QUAD2, *_BOX2, scalar_out=True),
        # analytic, 3 variables, 2 outputs
        TestFn(
            "expsin3",
            [
                [(1.0, (("e", 0.5), ("s", 1.0), None)), _mono(1, 1, 0, 1)],
                [(1.0, (("s", 0.8), None, ("e", -0.3))), (1.0, (None, ("c", 1.1), ("p", 2)))],
            ],
            *_BOX3,
        ),
        # m == n == 3; also the body of the harness discipline (x1 = x[0], x2 = x[1:], y1 = F[0], y2 = F[1:])
        TestFn("disc33", [[_mono(1, 2, 1, 0), _mono(1, 0, 0, 1)], [_mono(1, 1, 1, 1)], [_mono(1, 0, 2, 0), _mono(1, 1, 0, 0), _mono(0.5, 0, 0, 3)]], *_BOX3),
        # thorough tier: quartic, 4 variables, 3 outputs
        TestFn(
            "quart4",
            [
                [_mono(1, 4, 0, 0, 0), _mono(-2, 1, 1, 1, 0), _mono(1, 0, 0, 0, 2)],
                [_mono(1, 0, 2, 0, 1), _mono(0.5, 1, 0, 3, 0)],
                [(1.0, (("s", 0.6), None, None, ("e", 0.4))), _mono(1, 0, 1, 0, 0)],
            ],
            [-1.0, -1.5, -1.0, -2.0],
            [1.5, 1.0, 2.0, 1.0],
        ),
    ]
}
DEFAULT_FN = {2: "sq2", 3: "cubic3", 4: "quart4"}
QUICK_FUNCS = ["cubic3", "sq2", "quad2", "quad2s", "expsin3", "disc33"]
THOROUGH_FUNCS = [*QUICK_FUNCS, "quart4"]
QUICK_POINTS = ["interior", "zero", "on_ub", "on_lb", "near_ub"]
THOROUGH_POINTS = [*QUICK_POINTS, "near_lb", "all_ub", "mixed"]
POINT_FLAG = {
    "zero": "zero-component",
    "on_ub": "on-upper-bound",
    "on_lb": "on-lower-bound",
    "near_ub": "near-upper-bound",
    "near_lb": "near-lower-bound",
    "all_ub": "all-on-upper-bound",
    "mixed": "mixed-bound-point",
}


# ------------------------------------------------------------------------------------------------------
# evaluation log shared with forked children (process-parallel differentiation)
# ------------------------------------------------------------------------------------------------------
class _SharedLog:
    CAP = 64
    NMAX = 4

    def __init__(self):
        self.pid = None
        self.n = 0

    def reset(self, n):
        if self.pid != os.getpid():  # one private segment per harness worker, inherited by ITS children only
            self.arr = multiprocessing.RawArray("d", self.CAP * self.NMAX)
            self.cnt = multiprocessing.Value("i", 0)
            self.pid = os.getpid()
        self.n = n
        self.cnt.value = 0

    def add(self, u):
        with self.cnt.get_lock():
            k = self.cnt.value
            self.cnt.value = k + 1
        if k < self.CAP:
            self.arr[k * self.n : (k + 1) * self.n] = [float(v) for v in np.real(u)]

    def points(self):
        k = min(self.cnt.value, self.CAP)
        return np.array(self.arr[: k * self.n], dtype=float).reshape(k, self.n), self.cnt.value


_LOG = _SharedLog()


class _Probe:
    """The function handed to the approximator: logs the point, maps it to physical space, evaluates."""

    def __init__(self, fn, normalized):
        self.fn = fn
        self.normalized = normalized

    def __call__(self, u):
        _LOG.add(u)
        x = self.fn.lb + u * self.fn.span if self.normalized else u
        return self.fn.value(x)


def _approx_class(name):
    if name == "FD":
        from gemseo.utils.derivatives.finite_differences import FirstOrderFD as c
    elif name == "CD":
        from gemseo.utils.derivatives.centered_differences import CenteredDifferences as c
    else:
        from gemseo.utils.derivatives.complex_step import ComplexStep as c
    return c


def _design_space(fn):
    from gemseo.algos.design_space import DesignSpace

    ds = DesignSpace()
    ds.add_variable("a", 1, lower_bound=fn.lb[:1].copy(), upper_bound=fn.ub[:1].copy())
    ds.add_variable("b", fn.n - 1, lower_bound=fn.lb[1:].copy(), upper_bound=fn.ub[1:].copy())
    return ds


def _point(fn, kind, ds, hvec, alpha):
    n = fn.n
    t = np.array(alpha["interior"][:n], dtype=float)
    if ds == "norm":
        lbu, ubu, u = np.zeros(n), np.ones(n), t.copy()
    else:
        lbu, ubu, u = fn.lb.copy(), fn.ub.copy(), fn.lb + t * fn.span
    S, S2, near = sorted({0, n - 1}), [0, 1], alpha["near"]
    if kind == "zero":
        u[S] = 0.0
    elif kind == "on_ub":
        u[S] = ubu[S]
    elif kind == "on_lb":
        u[S2] = lbu[S2]
    elif kind == "near_ub":
        u[S] = ubu[S] - near * hvec[S]
    elif kind == "near_lb":
        u[S2] = lbu[S2] + near * hvec[S2]
    elif kind == "all_ub":
        u[:] = ubu
    elif kind == "mixed":
        u[0] = ubu[0]
        u[1] = ubu[1] - near * hvec[1]
        if n > 2:
            u[2] = lbu[2]
    elif kind != "interior":
        raise ValueError(kind)
    return u, lbu, ubu


def _tolerances(fn, approx, u, lbu, ubu, hvec, ds, cols):
    """(m, len(cols)) tolerance matrix and the per-column order label, see the module docstring."""
    scale = fn.span if ds == "norm" else np.ones(fn.n)
    tol = np.zeros((fn.m, len(cols)))
    labels = []
    for c, j in enumerate(cols):
        g1, m2, m3 = fn.bound(1)[:, j], fn.bound(2)[:, j] * scale[j] ** 2, fn.bound(3)[:, j] * scale[j] ** 3
        fabs = fn.bound(0)[:, j]
        ref = K_ROUND * EPS * g1 * scale[j] + 4 * EPS * g1 * scale[j]
        if approx == "CS":
            delta = hvec[j] * (abs(u[j]) if u[j] != 0.0 else 1.0)
            tol[:, c] = 1.01 * delta**2 / 6.0 * m3 + K_ROUND * EPS * g1 * scale[j] + ref
            labels.append("rounding")
            continue
        h = hvec[j]
        r = (2 * K_ROUND * EPS * fabs + 6 * EPS * fn.xmax * g1) / h
        if approx == "FD":
            tol[:, c] = h / 2.0 * m2 + r + ref
            labels.append("o1")
        else:
            at_bound = ds != "none" and (u[j] + h > ubu[j] or u[j] - h < lbu[j])
            if at_bound:
                tol[:, c] = h / 2.0 * m2 + h**2 / 6.0 * m3 + r + ref
                labels.append("o1@bound")
            else:
                tol[:, c] = h**2 / 6.0 * m3 + r / 2.0 + ref
                labels.append("o2")
    return tol, labels


def _pattern(approx, u, pts, cols):
    if approx == "CS":
        return "imag"
    if len(pts) == 0:
        return "nocalls"
    seen = {}
    for p in pts:
        d = p - u
        nz = np.nonzero(d)[0]
        for j in nz:
            seen.setdefault(int(j), set()).add("+" if d[j] > 0 else "-")
    kinds = set()
    for j in cols:
        s = seen.get(j, set())
        kinds.add({"+": "fwd", "-": "bwd", "+-": "2sided", "": "none"}["".join(sorted(s))])
    return ",".join(sorted(kinds))


def _resolve_step(case, fn, alpha):
    """-> (step object given to gemseo, per-component step vector in approximator coordinates)."""
    n = fn.n
    if case["approx"] == "CS":
        s = alpha["cs_steps"][0 if case["step"] == "s1" else 1]
        return s, np.full(n, s)
    if case["step"] == "vec":
        v = np.array(alpha["vec"][:n], dtype=float)
        return v, v.copy()
    s = alpha["steps"][0 if case["step"] == "s1" else 1]
    return s, np.full(n, s)


def exec_A(case):
    """Run one approximator-level case on the real code. -> (violations [(invariant, message)], observation)."""
    fn = FUNCS[case["fn"]]
    alpha = ALPHABETS[case["alpha"]]
    approx, ds, idx, n = case["approx"], case["ds"], list(case["idx"]), fn.n
    step, hvec = _resolve_step(case, fn, alpha)
    # "within one step" for the complex step (relative step ~1e-20) is meaningless: use 1e-6 for the point only
    u, lbu, ubu = _point(fn, case["point"], ds, hvec if approx != "CS" else np.full(n, 1e-6), alpha)
    cols = idx or list(range(n))
    xphys = fn.lb + u * fn.span if ds == "norm" else u
    scale = fn.span if ds == "norm" else np.ones(n)
    expected = (fn.jac(xphys) * scale)[:, cols]
    tol, labels = _tolerances(fn, approx, u, lbu, ubu, hvec, ds, cols)
    exp_shape = (len(cols),) if fn.scalar_out else (fn.m, len(cols))
    obs = {"x": u.tolist(), "step": np.asarray(step).tolist(), "x_indices": idx, "expected": expected.tolist(), "tolerance": tol.tolist()}
    viols = []
    _LOG.reset(n)
    kwargs = {"design_space": _design_space(fn) if ds != "none" else None, "normalize": ds == "norm", "parallel": bool(case["par"])}
    if case["par"]:
        kwargs["n_processes"] = 2
    try:
        ap = _approx_class(approx)(_Probe(fn, ds == "norm"), step=step if case["via"] == "ctor" else None, **kwargs)
        jac = ap.f_gradient(u.copy(), step=(np.array(step) if isinstance(step, np.ndarray) else step) if case["via"] == "call" else None, x_indices=idx)
    except Exception as e:  # noqa: BLE001 - any exception on a legal call is an observation
        viols.append(("no-exception", f"{type(e).__name__}: {str(e)[:200]}"))
        obs["raised"] = f"{type(e).__name__}: {str(e)[:200]}"
        obs["pattern"] = "raised"
        return viols, obs
    jac = np.asarray(jac)
    pts, n_calls = _LOG.points()
    obs.update(jacobian=jac.tolist(), n_calls=n_calls, pattern=_pattern(approx, u, pts, cols), order=",".join(sorted(set(labels))))
    if n_calls < len(cols):  # the log is the harness' eyes: fewer calls than columns means it is blind
        raise HarnessError(f"evaluation log saw {n_calls} calls for {len(cols)} columns")
    if jac.shape != exp_shape:
        viols.append(("shape", f"shape {jac.shape}, expected {exp_shape}"))
    else:
        j2 = jac.reshape(fn.m, len(cols))
        if not np.isfinite(j2).all():
            viols.append(("finite-jacobian", f"jacobian={j2.tolist()} expected={expected.tolist()}"))
        else:
            err = np.abs(j2 - expected)
            obs["tightness"] = float((err / tol).max())  # observed error / derived bound (sharpness of the oracle)
            bad = ~(err <= tol)
            if bad.any():
                i, c = map(int, np.argwhere(bad)[0])
                viols.append(("error-bound", f"|J-exact|[{i},{cols[c]}]={err[i, c]:.3e} > bound {tol[i, c]:.3e} ({labels[c]}); J={j2.tolist()} exact={expected.tolist()}"))
    if len(pts) and (np.abs(fn.lb + pts * fn.span if ds == "norm" else pts) > fn.B).any():
        # outside the box on which the derivative bounds were derived: the accuracy oracle is void there
        viols.append(("evaluation-far-outside-box", f"points={pts.tolist()}"))
    if ds != "none" and len(pts):
        over = pts - ubu
        slack = 4 * EPS * np.maximum(1.0, np.abs(ubu))
        if (over > slack).any():
            k, j = map(int, np.argwhere(over > slack)[0])
            viols.append(("upper-bound-exceeded", f"evaluation at {pts[k].tolist()} exceeds upper bound {ubu.tolist()} in component {j} by {over[k, j]:.3e} (x={u.tolist()}, step={np.asarray(step).tolist()})"))
        obs["below_lower_bound"] = int((pts < lbu - slack).any())
    return viols, obs


# ------------------------------------------------------------------------------------------------------
# Part B: discipline level
# ------------------------------------------------------------------------------------------------------
DFN = "disc33"
IN_SLICES = {"x1": [0], "x2": [1, 2]}
OUT_SLICES = {"y1": [0], "y2": [1, 2]}
WRONG_DELTA = 1.0
_TOY = None


def _toy(point, wrong=None):
    global _TOY
    if _TOY is None:
        from gemseo.core.discipline import Discipline

        class C16Toy(Discipline):
            default_grammar_type = Discipline.GrammarType.SIMPLE

            def __init__(self, x0, wrong):
                super().__init__()
                self.io.input_grammar.update_from_types({"x1": np.ndarray, "x2": np.ndarray})
                self.io.output_grammar.update_from_types({"y1": np.ndarray, "y2": np.ndarray})
                self.io.input_grammar.defaults = {"x1": np.array(x0[:1]), "x2": np.array(x0[1:])}
                self.wrong = wrong
                self.n_runs = 0

            def _run(self, input_data):
                self.n_runs += 1
                x = np.concatenate([input_data["x1"], input_data["x2"]])
                f = FUNCS[DFN].value(x)
                return {"y1": f[:1], "y2": f[1:]}

            def _compute_jacobian(self, input_names=(), output_names=()):
                x = np.real(np.concatenate([self.io.data["x1"], self.io.data["x2"]]))
                j = FUNCS[DFN].jac(x)
                self.jac = {o: {i: j[np.ix_(r, c)].copy() for i, c in IN_SLICES.items()} for o, r in OUT_SLICES.items()}
                if self.wrong:
                    o, r, i, c = self.wrong
                    self.jac[o][i][r, c] += WRONG_DELTA

        _TOY = C16Toy
    return _TOY(point, wrong)


def _disc_point(kind, alpha):
    fn = FUNCS[DFN]
    u, _, _ = _point(fn, kind, "none", np.full(fn.n, 1e-6), alpha)
    return u


def _disc_step(case, alpha):
    """-> (step argument, per-component vector)."""
    n = sum(len(IN_SLICES[i]) for i in (case.get("I") or list(IN_SLICES)))
    a = case["mode"]
    if case["step"] == "default":
        return None, np.full(3, 1e-7)
    if case["step"] == "vec":
        cols = [j for i in (case.get("I") or list(IN_SLICES)) for j in IN_SLICES[i]]
        v = [float(alpha["vec"][j]) for j in cols]
        full = np.array(alpha["vec"][:3], dtype=float)
        return v, full  # a list: what a user would type; DisciplineJacApprox documents "an iterable of floats"
    s = alpha["cs_steps"][0] if a == "CS" else alpha["steps"][1]
    return s, np.full(3, s)


def _disc_tol(a, x, hvec):
    fn = FUNCS[DFN]
    tol, _ = _tolerances(fn, a, x, fn.lb, fn.ub, hvec, "none", list(range(fn.n)))
    return tol


def _decode_sel(sel):
    out = {}
    for k, v in sel.items():
        if isinstance(v, str) and v.startswith("slice:"):
            a, b = v.split(":")[1:]
            out[k] = slice(int(a), int(b))
        elif v == "...":
            out[k] = Ellipsis
        elif v == "none":
            out[k] = None
        else:
            out[k] = v
    return out


def _selected(sel, name, size):
    """Own reading of the documented ``indices`` forms -> list of selected components of ``name``."""
    if name not in sel:
        return list(range(size))
    v = sel[name]
    if isinstance(v, int):
        return [v]
    if isinstance(v, list):
        return list(v)
    if isinstance(v, str) and v.startswith("slice:"):
        a, b = v.split(":")[1:]
        return list(range(size))[slice(int(a), int(b))]
    return list(range(size))  # "..." / "none"


def exec_B(case):
    alpha = ALPHABETS[case["alpha"]]
    fn = FUNCS[DFN]
    a = case["mode"]
    x = _disc_point(case.get("point", "interior"), alpha)
    step, hvec = _disc_step(case, alpha)
    if case["part"] == "B1" and case["setup"] == "setter":  # the setter installs the default approximation (step 1e-7)
        step, hvec = None, np.full(3, 1e-7)
    tol = _disc_tol(a, x, hvec)
    exact = fn.jac(x)
    data = {"x1": x[:1].copy(), "x2": x[1:].copy()}
    obs = {"x": x.tolist(), "step": step}
    viols = []
    part = case["part"]
    try:
        if part == "B1":
            d = _toy(x)
            if case["setup"] == "setter":
                d.linearization_mode = MODE[a]
            else:
                d.set_jacobian_approximation(MODE[a], **({} if step is None else {"jax_approx_step": step}))
            if case["din"] is None:
                jac = d.linearize(data, compute_all_jacobians=True)
                ins, outs = list(IN_SLICES), list(OUT_SLICES)
            else:
                ins, outs = list(case["din"]), list(case["dout"])
                d.add_differentiated_inputs(ins)
                d.add_differentiated_outputs(outs)
                jac = d.linearize(data)
            obs["n_runs"] = d.n_runs
            if sorted(jac) != sorted(outs) or any(sorted(jac[o]) != sorted(ins) for o in jac):
                viols.append(("jacobian-keys", f"got {[(o, sorted(v)) for o, v in jac.items()]}, expected outputs {outs} x inputs {ins}"))
            else:
                viols += _compare_blocks(jac, ins, outs, exact, tol, None)
        elif part == "B3":
            from gemseo.utils.derivatives.derivatives_approx import DisciplineJacApprox

            d = _toy(x)
            d.execute(data)
            kw = {"parallel": True, "n_processes": 2} if case["par"] else {}
            ap = DisciplineJacApprox(d, MODE[a], **({} if step is None else {"step": step}), **kw)
            ins, outs = list(IN_SLICES), list(OUT_SLICES)
            jac = ap.compute_approx_jac(outs, ins, list(case["xidx"]))
            viols += _compare_blocks(jac, ins, outs, exact, tol, list(case["xidx"]) or None)
        elif part == "B2":
            d = _toy(x, tuple(case["wrong"]) if case["wrong"] else None)
            thr = max(1e-6, 4.0 * float(tol.max()))
            g1 = float(fn.bound(1).max())
            if not (thr * (3.0 + g1) + float(tol.max()) < 0.5 * WRONG_DELTA):
                raise HarnessError("threshold does not separate correct from wrong Jacobians")
            kw = {} if step is None else {"step": step}
            ok = d.check_jacobian(data, derr_approx=MODE[a], threshold=thr, input_names=list(case["I"]), output_names=list(case["O"]), indices=_decode_sel(case["sel"]), **kw)
            obs.update(result=bool(ok), threshold=thr)
            expected_ok = not case["wrong"]
            if bool(ok) != expected_ok:
                inv = "check_jacobian-accepts-correct" if expected_ok else "check_jacobian-rejects-wrong-selected-entry"
                viols.append((inv, f"check_jacobian returned {ok}; analytic Jacobian {'is exact' if expected_ok else 'is wrong by %s in entry %s' % (WRONG_DELTA, case['wrong'])}; indices={case['sel']} inputs={case['I']} outputs={case['O']} step={step} threshold={thr:.2e}"))
        else:
            raise ValueError(part)
    except HarnessError:
        raise
    except Exception as e:  # noqa: BLE001
        viols.append(("no-exception", f"{type(e).__name__}: {str(e)[:200]}"))
        obs["raised"] = f"{type(e).__name__}: {str(e)[:200]}"
    return viols, obs


def _compare_blocks(jac, ins, outs, exact, tol, xidx):
    viols = []
    for o in outs:
        for i in ins:
            r, c = OUT_SLICES[o], IN_SLICES[i]
            blk = jac[o][i]
            blk = blk.toarray() if hasattr(blk, "toarray") else np.asarray(blk)
            if blk.shape != (len(r), len(c)):
                viols.append(("shape", f"d{o}/d{i} has shape {blk.shape}, expected {(len(r), len(c))}"))
                continue
            blk = np.real(blk)
            for cc, j in enumerate(c):
                if xidx is not None and j not in xidx:
                    if (blk[:, cc] != 0.0).any():
                        viols.append(("unselected-column-not-zero", f"d{o}/d{i}[:, {cc}] = {blk[:, cc].tolist()} for x_indices={xidx}"))
                    continue
                e = np.abs(blk[:, cc] - exact[r, j])
                if not np.isfinite(blk[:, cc]).all():
                    viols.append(("finite-jacobian", f"d{o}/d{i}[:, {cc}] = {blk[:, cc].tolist()}, exact {exact[r, j].tolist()}"))
                elif not (e <= tol[r, j]).all():
                    viols.append(("error-bound", f"d{o}/d{i}[:, {cc}] = {blk[:, cc].tolist()}, exact {exact[r, j].tolist()}, |err|={e.tolist()} > bound {tol[r, j].tolist()}"))
    # one message per invariant is enough
    seen, out = set(), []
    for inv, msg in viols:
        if inv not in seen:
            seen.add(inv)
            out.append((inv, msg))
    return out


# ------------------------------------------------------------------------------------------------------
# structural flags, minimisation of failing cases (attribution to the structural trigger), signatures
# ------------------------------------------------------------------------------------------------------
def _flags(case):
    f = []
    p = case["part"]
    if p == "A":
        fn = FUNCS[case["fn"]]
        idx = list(case["idx"])
        if idx:
            f.append("explicit-full-set" if len(idx) == fn.n else "strict-subset" if idx == list(range(len(idx))) else "strict-subset-nonleading")
        if case["step"] == "vec":
            f.append("step-vector")
        elif case["step"] == "s2":
            f.append("second-scalar-step")
        if case["via"] == "ctor":
            f.append("step-at-construction")
        if case["ds"] != "none":
            f.append("design-space" if case["ds"] == "phys" else "design-space-normalized")
        if case["point"] != "interior":
            f.append(POINT_FLAG[case["point"]])
        if case["par"]:
            f.append("parallel")
        if case["fn"] != DEFAULT_FN[fn.n]:
            f.append(f"fn={case['fn']}")
        return f
    if case["step"] == "vec":
        f.append("step-vector")
    elif case["step"] == "default":
        f.append("default-step")
    if case.get("point", "interior") != "interior":
        f.append(POINT_FLAG[case["point"]])
    if p == "B1":
        f.append("mode-by-" + case["setup"])
        if case["din"] is not None:
            f.append("differentiated-io-subset" if (len(case["din"]), len(case["dout"])) != (2, 2) else "differentiated-io-all")
    elif p == "B3":
        x = list(case["xidx"])
        if x:
            f.append("explicit-full-set" if len(x) == 3 else "strict-subset" if x == list(range(len(x))) else "strict-subset-nonleading")
        if case["par"]:
            f.append("parallel")
    elif p == "B2":
        ins = list(case["I"]) or list(IN_SLICES)
        outs = list(case["O"]) or list(OUT_SLICES)
        sel = case["sel"]
        if sel:
            cols = [j for i in ins for j in [IN_SLICES[i][k] for k in _selected(sel, i, len(IN_SLICES[i]))]]
            allc = [j for i in ins for j in IN_SLICES[i]]
            rows_strict = any(len(_selected(sel, o, len(OUT_SLICES[o]))) < len(OUT_SLICES[o]) for o in outs)
            if cols != allc:
                f.append("indices:strict-input-subset" if cols == allc[: len(cols)] else "indices:strict-input-subset-nonleading")
            if rows_strict:
                f.append("indices:strict-output-subset")
            if cols == allc and not rows_strict:
                f.append("indices:all-components")
        if case["I"]:
            f.append("input_names-given")
        if case["O"]:
            f.append("output_names-given")
        if case["wrong"]:
            f.append("one-wrong-selected-entry")
    return f


def _valid(case):
    if case["part"] == "A":
        return not (case["approx"] == "CS" and case["step"] == "vec")
    if case["part"] == "B2" and case["wrong"]:
        o, r, i, c = case["wrong"]
        ins = list(case["I"]) or list(IN_SLICES)
        outs = list(case["O"]) or list(OUT_SLICES)
        return o in outs and i in ins and r in _selected(case["sel"], o, len(OUT_SLICES[o])) and c in _selected(case["sel"], i, len(IN_SLICES[i]))
    return not (case.get("mode") == "CS" and case["step"] == "vec")


def _resets(case):
    """Candidate simplifications, tried greedily in this order: (axis, value)."""
    p = case["part"]
    out = []
    if p == "A":
        n = FUNCS[case["fn"]].n
        out += [("par", False), ("via", "call"), ("step", "s1"), ("ds", "none"), ("ds", "phys"), ("point", "interior"), ("fn", DEFAULT_FN[n])]
        out += [("idx", [])] + [("idx", [j]) for j in range(n)]
    elif p == "B1":
        out += [("point", "interior"), ("setup", "explicit"), ("din", None)]
    elif p == "B3":
        out += [("par", False), ("step", "scalar"), ("xidx", [])] + [("xidx", [j]) for j in range(3)]
    elif p == "B2":
        out += [("wrong", None), ("step", "scalar"), ("I", []), ("O", [])]
        out += [("sel", s) for s in ({}, {"x2": 0}, {"x2": 1}, {"y2": 0}, {"y2": 1})]
        out += [("sel", {k: v for k, v in case["sel"].items() if k != drop}) for drop in case["sel"]]
    return out


def _rank(sel):
    """Simplicity order of an index selection: default < leading single < single < anything else."""
    if not sel:
        return 0
    if isinstance(sel, dict):
        return 3 if len(sel) > 1 or not isinstance(next(iter(sel.values())), int) else 1 if next(iter(sel.values())) == 0 else 2
    return 3 if len(sel) > 1 else 1 if sel[0] == 0 else 2


def _execute(case):
    return exec_A(case) if case["part"] == "A" else exec_B(case)


def _minimize(case, inv):
    cur = dict(case)
    changed = True
    while changed:
        changed = False
        for axis, val in _resets(cur):
            if cur.get(axis) == val:
                continue
            if axis in ("idx", "xidx", "sel") and _rank(val) >= _rank(cur[axis]):
                continue
            if axis == "ds" and val == "phys" and cur["ds"] != "norm":
                continue
            trial = {**cur, axis: val}
            if axis == "din":
                trial["dout"] = None
            if not _valid(trial):
                continue
            try:
                v, _ = _execute(trial)
            except Exception:  # noqa: BLE001
                continue
            if any(i == inv for i, _ in v):
                cur = trial
                changed = True
                break
    return cur


_MIN_CACHE: dict = {}
_NONTRIVIAL_RULE = (
    "one case = one configuration of the product; non-trivial when at least one structural axis is off its default "
    "(explicit x_indices, step vector / second step / step at construction, design space, point on/near a bound or with a "
    "zero component, parallel; discipline level: indices given, differentiated subset, step vector, one wrong entry)"
)


def _approx_of(case):
    return CLASSNAME[case["approx"] if case["part"] == "A" else case["mode"]]


def _key(case):
    return tuple(sorted((k, repr(v)) for k, v in case.items()))


def check_case(case, tally):
    viols, obs = _execute(case)
    flags = _flags(case)
    status = "ok" if not viols else "+".join(sorted({i for i, _ in viols}))
    level = {"A": "f_gradient", "B1": "Discipline.linearize", "B2": "Discipline.check_jacobian", "B3": "DisciplineJacApprox.compute_approx_jac"}[case["part"]]
    if case["part"] == "A":
        outcome = f"{case['approx']}:{status}:{obs.get('order', '-')}:{obs.get('pattern', '-')}"
        if obs.get("below_lower_bound"):
            tally.count("cases_with_evaluations_below_a_lower_bound(not an oracle)")
        tally.count("function_evaluations_logged", int(obs.get("n_calls", 0)))
        if "tightness" in obs and not viols:
            t = obs["tightness"]
            tally.count(f"observed_error/bound:{case['approx']}:{obs.get('order')}:" + (">=0.1" if t >= 0.1 else ">=0.001" if t >= 1e-3 else "<0.001"))
    else:
        outcome = f"{case['part']}:{case['mode']}:{status}" + (f":{obs.get('result')}" if "result" in obs else "")
    nontrivial = bool([f for f in flags if not f.startswith("fn=")])
    tally.case(_key(case), nontrivial=nontrivial, outcome=outcome, sample={"case": case, "observed": {k: obs[k] for k in ("jacobian", "n_calls", "pattern", "order", "result") if k in obs}})
    done = set()
    for inv, msg in viols:
        if inv in done:
            continue
        done.add(inv)
        ck = (inv, _approx_of(case), level, tuple(flags))
        if ck not in _MIN_CACHE:
            small = _minimize(case, inv)
            v2, _ = _execute(small)
            m2 = next((m for i, m in v2 if i == inv), msg)
            _MIN_CACHE[ck] = (small, [f for f in _flags(small)], m2)
        small, mflags, m2 = _MIN_CACHE[ck]
        sig = {"invariant": inv, "approximator": _approx_of(case), "level": level, "trigger": "+".join(mflags) or "always"}
        tally.violation(sig, small, f"{inv}: {m2}\n  minimal case={small}\n  structural trigger: {sig['trigger']}")


# ------------------------------------------------------------------------------------------------------
# enumeration
# ------------------------------------------------------------------------------------------------------
def cases_A(thorough, alpha):
    out = []
    for fname in THOROUGH_FUNCS if thorough else QUICK_FUNCS:
        n = FUNCS[fname].n
        axes = {
            "approx": ["FD", "CD", "CS"],
            "point": THOROUGH_POINTS if thorough else QUICK_POINTS,
            "step": ["s1", "s2", "vec"],
            "via": ["call", "ctor"],
            "idx": [[]] + [list(s) for s in product.nonempty_subsets(list(range(n)))],
            "par": [False, True],
            "ds": ["none", "phys", "norm"],
        }
        for c in product.full(axes):
            case = {"part": "A", "fn": fname, **c, "alpha": alpha}
            if c["par"] and not thorough and (c["via"] == "ctor" or c["step"] == "s2"):
                # quick tier: ~60 ms of process start-up per parallel run; how/which scalar step is given does not
                # reach _compute_parallel_grad differently, so these two axes are only crossed with parallel in thorough
                continue
            if _valid(case):
                out.append(case)
    return out


def _sel_product(thorough):
    x1 = [None, 0] + (["..."] if thorough else [])
    x2 = [None, 0, 1, [0, 1], [1], "slice:0:1", "..."] + (["none", "slice:1:2"] if thorough else [])
    y1 = [None, 0]
    y2 = [None, 1, [0, 1], [0]] + (["slice:0:1", 0] if thorough else [])
    for a, b, c, d in itertools.product(x1, x2, y1, y2):
        yield {k: v for k, v in (("x1", a), ("x2", b), ("y1", c), ("y2", d)) if v is not None}


QUICK_NAMES = [([], []), (["x2"], ["y2"]), (["x1", "x2"], ["y1"]), (["x1"], ["y1", "y2"])]


def cases_B(thorough, alpha):
    out = []
    modes = ["FD", "CD", "CS"]
    names_in = product.nonempty_subsets(list(IN_SLICES))
    names_out = product.nonempty_subsets(list(OUT_SLICES))
    # B1 linearize
    for a, setup, pt in itertools.product(modes, ["setter", "explicit"], ["interior", "zero"] + (["on_ub"] if thorough else [])):
        for stp in ["default"] if setup == "setter" else ["scalar"]:
            for din, dout in [(None, None)] + [(list(i), list(o)) for i in names_in for o in names_out]:
                out.append({"part": "B1", "mode": a, "setup": setup, "step": stp, "point": pt, "din": din, "dout": dout, "alpha": alpha})
    # B3 compute_approx_jac placement
    for a, stp, par in itertools.product(modes, ["default", "scalar", "vec"], [False, True]):
        for xidx in [[]] + [list(s) for s in product.nonempty_subsets([0, 1, 2])]:
            c = {"part": "B3", "mode": a, "step": stp, "xidx": xidx, "par": par, "alpha": alpha}
            if _valid(c):
                out.append(c)
    # B2 check_jacobian
    for a, stp in itertools.product(modes, ["scalar", "vec"] + (["default"] if thorough else [])):
        for ins, outs in itertools.product([[]] + [list(i) for i in names_in], [[]] + [list(o) for o in names_out]):
            if not thorough and (ins, outs) not in QUICK_NAMES:
                continue
            for sel in _sel_product(thorough):
                base = {"part": "B2", "mode": a, "step": stp, "I": ins, "O": outs, "sel": sel, "wrong": None, "alpha": alpha}
                if not _valid(base):
                    continue
                out.append(base)
                for o in outs or list(OUT_SLICES):
                    for i in ins or list(IN_SLICES):
                        for r in _selected(sel, o, len(OUT_SLICES[o])):
                            for c in _selected(sel, i, len(IN_SLICES[i])):
                                out.append({**base, "wrong": [o, r, i, c]})
    return out


# ------------------------------------------------------------------------------------------------------
# process-parallel cases need workers that may have children: a small non-daemonic twin of mc.core.pmap
# ------------------------------------------------------------------------------------------------------
def _shutdown_gemseo_manager():
    try:
        import gemseo.utils.multiprocessing.manager as mm

        m = mm.__dict__.get("__manager")
        if m is not None:
            m.shutdown()
            mm.__dict__["__manager"] = None
    except Exception:  # noqa: BLE001
        pass


def _run_chunk(fn, chunk):
    t = Tally()
    for case in chunk:
        try:
            fn(case, t)
        except Exception:  # noqa: BLE001 - a harness error is never a silent pass
            t.violation({"invariant": "harness-error", "where": traceback.format_exc().strip().splitlines()[-1][:120]}, case, traceback.format_exc())
    return t


def _nd_worker(fn, my_chunks, q):
    try:
        for ci, chunk in my_chunks:
            q.put((ci, _run_chunk(fn, chunk)))
    finally:
        _shutdown_gemseo_manager()
        q.put(("done", None))


def pmap_nondaemon(fn, cases, tally, jobs, chunk=20, timeout=900):
    all_chunks = list(enumerate(chunks(cases, chunk)))
    if not all_chunks:
        return
    if jobs <= 1:
        for _, c in all_chunks:
            tally.merge(_run_chunk(fn, c))
        _shutdown_gemseo_manager()
        return
    import gemseo.utils.multiprocessing.manager as mm

    assert mm.__dict__.get("__manager") is None, "the gemseo manager must not exist before forking"
    ctxm = multiprocessing.get_context("fork")
    q = ctxm.Queue()
    jobs = min(jobs, len(all_chunks))
    procs = [ctxm.Process(target=_nd_worker, args=(fn, all_chunks[w::jobs], q)) for w in range(jobs)]
    for p in procs:
        p.daemon = False
        p.start()
    results, done, deadline = {}, 0, time.time() + timeout
    while done < jobs:
        try:
            ci, t = q.get(timeout=5)
        except _queue.Empty:
            if time.time() > deadline or not any(p.is_alive() for p in procs):
                break
            continue
        if ci == "done":
            done += 1
        else:
            results[ci] = t
    for p in procs:
        p.join(timeout=10)
        if p.is_alive():
            p.terminate()
    for ci in sorted(results):
        tally.merge(results[ci])
    missing = [ci for ci, _ in all_chunks if ci not in results]
    if missing:
        tally.violation({"invariant": "harness-timeout"}, all_chunks[missing[0]][1][0], f"{len(missing)} chunks of process-parallel cases did not report within {timeout}s")


def _uses_processes(case):
    return bool(case.get("par"))


def run(ctx):
    alpha = ctx.seed % len(ALPHABETS)
    only = (getattr(ctx, "only", None) or "").upper()
    cases = []
    if not only or only.startswith("A"):
        cases += cases_A(ctx.thorough, alpha)
    if not only or only.startswith("B"):
        cases += [c for c in cases_B(ctx.thorough, alpha) if not only or only == "B" or c["part"] == only]
    cases.sort(key=lambda c: len(_flags(c)))  # simplest first (stable)
    serial = [c for c in cases if not _uses_processes(c)]
    par = [c for c in cases if _uses_processes(c)]
    t0 = time.time()
    pmap(check_case, serial, ctx.tally, jobs=ctx.jobs, chunk=100, timeout=120)
    t1 = time.time()
    pmap_nondaemon(check_case, par, ctx.tally, jobs=ctx.jobs, chunk=20)
    t2 = time.time()
    per_part = {}
    for c in cases:
        per_part[c["part"]] = per_part.get(c["part"], 0) + 1
    ctx.tally.notes["cases_per_part"] = per_part
    ctx.tally.notes["serial_cases"] = len(serial)
    ctx.tally.notes["process_parallel_cases"] = len(par)
    ctx.tally.notes["wall_serial_s"] = round(t1 - t0, 1)
    ctx.tally.notes["wall_process_parallel_s"] = round(t2 - t1, 1)
    return {
        "level": LEVEL,
        "rule": _NONTRIVIAL_RULE,
        "exhaustive": True,
        "bounds": {
            "functions": THOROUGH_FUNCS if ctx.thorough else QUICK_FUNCS,
            "points": THOROUGH_POINTS if ctx.thorough else QUICK_POINTS,
            "x_indices": "default + every non-empty sorted subset (n = 2, 3" + (", 4)" if ctx.thorough else ")"),
            "steps": "2 scalars + 1 per-component vector (length of x); ComplexStep: 2 scalars",
            "parallel": "off / 2 processes" + ("" if ctx.thorough else " (quick: parallel is crossed with step in {first scalar, vector} given at call; thorough: full product)"),
            "design_space": ["none", "bounded, normalize=False", "bounded, normalize=True"],
            "discipline_level": "linearize: 3 modes x 2 set-ups x points x (all | every differentiated input/output subset); "
            "compute_approx_jac: 3 modes x steps x every x_indices subset x serial/processes; "
            "check_jacobian: 3 modes x steps x " + ("every" if ctx.thorough else "4") + " input_names/output_names choices x every enumerated indices mapping x (exact Jacobian + one wrong entry per selected entry)",
            "value_alphabet": alpha,
        },
        "assumptions": [
            "structural axes are exhaustive; values (steps, points, test functions) come from one finite alphabet of 3 rotated by VERIF_SEED - not a proof over the reals",
            "tolerances are Taylor remainders from term-wise derivative bounds plus a rounding budget of 32 ulp per evaluation (module docstring); none is tuned",
            "centered differences within one step of a bound of a supplied design space are held to the one-sided first-order bound",
            "only upper bounds are protected by the statement; evaluations below lower bounds are counted, not flagged",
            "ComplexStep is enumerated with scalar steps only; step vectors have the length of x",
            "parallel means processes (thread workers must be distinct objects by CallableParallelExecution's documented contract); the evaluation log is in fork-shared memory",
            "check_jacobian(auto_set_step=True) and Jacobians wrong in a not-selected entry are outside the oracle",
        ],
    }


def replay(case, ctx):
    viols, obs = _execute(case)
    return {"case": case, "flags": _flags(case), "violations": [{"invariant": i, "message": m} for i, m in viols], **obs}
