"""C16 - derivative approximations are accurate to their order and respect bounds (engine E2).

Part A (approximator level): the full product
    approximator {FirstOrderFD, CenteredDifferences, ComplexStep}
  x test function (separable-term functions with derivative bounds derived term by term)
  x point class (interior, zero components, on the upper bound, on the lower bound, within one step of the
    upper bound; thorough adds near the lower bound, all components on the upper bound, mixed)
  x step (two scalars, one per-component vector of the length of x)
  x how the step is given (f_gradient(step=...) / constructor)
  x x_indices (the default, every non-empty subset, every permutation of it, selections with a repeated index)
  x parallel (off / on = 2 processes; the quick tier crosses parallel=on with step in {first scalar, vector} given at
    call only - each parallel run costs ~60 ms of process start-up; the thorough tier runs the full product)
  x design space (none / bounded with normalize off / bounded with normalize on)
Part H (histories on ONE approximator instance): f_gradient, an edit of the SAME DesignSpace object (upper bound
tightened onto / just above the second point, made finite from +inf, loosened, made infinite; the same for the lower
bound; no edit), f_gradient again; x normalize off/on x x_indices x step.  The second call is judged exactly like a
fresh call against the CURRENT bounds (own model of the coordinates: only components with two finite bounds are
normalized).
Part K (keyword arguments of the function x histories on ONE approximator instance): f_gradient(x, **kwargs) must
differentiate the function WITH THE KEYWORD ARGUMENTS OF THAT CALL: kwargs in {none, {c}, {c, body}} (c multiplies the
outputs, body selects another test function on the same box; F(.; c, body) is again a TestFn, so the same derived
bounds judge it) x approximator x serial / 2 processes x every history of at most one (thorough: two) earlier calls
f_gradient(x', **kwargs') / compute_optimal_step(x', **kwargs') on the same instance x where the step of the judged
call comes from (given at the call / left in the instance by the constructor or by compute_optimal_step) x x_indices.
Part B (discipline level), on two harness disciplines - x1 (size 1), x2 (2) -> y1 (1), y2 (2) and a (3), b (2) ->
y (2), w (2), the second one so that a strict subset on a variable that is NOT the last one moves the flat positions of
the following variable: Discipline.linearize in the three approximation modes (B1); Discipline.check_jacobian(
indices=...) on a correct Jacobian (verdict, and the reference Jacobian the call itself saves, block by block:
selected columns exact, the others zero) and on Jacobians wrong in exactly one selected entry of any selected block
(B2); DisciplineJacApprox.compute_approx_jac(x_indices=...) placement of partial Jacobians (B3).
Part B4 (Discipline.check_jacobian, the point axis): auto_set_step {off, on} x input_data {absent = the defaults,
the defaults passed explicitly, another interior point, a point with zero components, only the last variable given;
thorough: a point on the upper bounds} x method x input_names/output_names x indices x {exact Jacobian: accepted, and
the reference Jacobian the call saves is the derivative AT input_data block by block; one wrong selected entry:
rejected}.  auto_set_step evaluates the discipline around its DEFAULT inputs; what it leaves in the discipline must not
move the point of the approximation.
Part C (cache axis of the discipline level): cache in {none, SimpleCache, MemoryFullCache} x tolerance in {0, 1e-4
(far above every step), 1e-12} x linearize in the three modes / compute_approx_jac / check_jacobian (exact Jacobian
accepted; one wrong entry, a forgotten block, a null Jacobian rejected), same error-bound oracle.
Part HB (histories on ONE discipline / DisciplineJacApprox): two linearize / compute_approx_jac / check_jacobian calls
with a different point, differentiated io, x_indices or indices; the second is judged like a fresh one.

Oracle = shape, entry-wise theoretical error bound, log of every point the function is called at.

Derivation of the tolerances (all in the coordinates the approximator works in; h = step of component j)
---------------------------------------------------------------------------------------------------------
Every test function is F_i(x) = sum_t c_t prod_j phi_tj(x_j) with phi in {1, t^p, exp(at), sin(at), cos(at)}.
Partial derivatives of any order along one coordinate are again of this form, so on the box
|x_j| <= B_j (B_j = max(|lb_j|, |ub_j|) + MARGIN; every evaluation point stays inside, checked)
    |d^k F_i / dx_j^k| <= M_k[i, j] := sum_t |c_t| bound(phi_tj^(k)) prod_{l != j} bound(phi_tl),
    FABS[i] := M_0.
With a normalized design space the approximator differentiates g(z) = F(lb + z * span):
    d^k g / dz_j^k = span_j^k d^k F / dx_j^k.
Taylor with Lagrange remainder:
    forward/backward quotient :  |err| <= h/2   * M_2
    centered quotient         :  |err| <= h^2/6 * M_3
    one-sided/asymmetric two-point quotient with arms a in [0, h] and h (what centered differences may fall back
    to at a bound):  |err| <= h/2 * M_2 + h^2/6 * M_3
    complex step, perturbation i*delta: Im F(x + i delta e_j)/delta = F' - delta^2/6 F''' + ..., |err| <= 1.01 * delta^2/6 * M_3.
Rounding (EPS = 2^-52):
    * F is evaluated with <= 4n+2 roundings per term (argument products, elementary functions <= 2 ulp, factor
      products, coefficient) and <= 8 terms are summed: |fl(F) - F| <= K * EPS * FABS with K = 32 (n <= 4);
      the same count bounds the imaginary part in complex arithmetic (K * EPS * M_1) and the reference derivative.
    * the perturbed point fl(x_j + h) (and, when normalized, fl(lb + z * span)) is off by <= 3 EPS * XMAX per
      evaluation point, i.e. <= 6 EPS * XMAX * M_1 in the difference of the two values; FirstOrderFD divides by
      the nominal step.
    R = (2 K EPS FABS + 6 EPS XMAX M_1) / h     (divided by 2h for the two-sided centered quotient)
No constant is tuned: a tolerance is truncation bound + R + reference rounding.

Oracle boundaries
-----------------
* CenteredDifferences with a design space at a component within one step of a bound (x_j + h > ub_j or
  x_j - h < lb_j) cannot be both second order and inside the bounds with two evaluations: held to the
  asymmetric/one-sided bound above.  Without design space it is always held to second order.
* The statement only protects upper bounds: evaluations below a lower bound are counted, never flagged.
* ComplexStep: the step is documented as a scalar (DisciplineJacApprox: "The complex_step method takes either a
  complex or a float"); per-component step vectors are not enumerated for it.  Its step is relative
  (delta = |x_j| * step, or step when x_j == 0), the bound uses that delta.
* Per-component step vectors have the length of x (DisciplineJacApprox enforces it, compute_optimal_step
  produces it, "one step by input component"); a vector of the length of the subset is not enumerated.
* parallel=True means processes: CallableParallelExecution documents (and enforces with a ValueError) that
  thread workers must be distinct objects, which the approximators (n times the same bound method) are not -
  every approximator, and Discipline.check_jacobian(parallel=True, use_threading=True), raises that ValueError.
  The call log lives in fork-shared memory so that the bound oracle also sees the children's evaluations.
* x_indices / indices are ORDERED selections: every caller (the scatter flat_jac_complete[:, x_indices] = flat_jac in
  compute_approx_jac, check_jacobian's computed_jac[rows, cols] vs approx_jac[rows, cols]) relies on "column j of
  f_gradient is the derivative w.r.t. x_indices[j]", so every permutation of every subset (n <= 3; n >= 4: ordered
  pairs and reversed subsets) and selections with one repeated index (the API accepts them: duplicated columns) are
  enumerated at the three levels with that oracle.
* Cache axis (part C): the discipline-level approximations must not be served from the discipline's cache, whatever
  its type and tolerance (compute_approx_jac zeroes the tolerance on purpose); MemoryFullCache cases run on the
  non-daemonic workers because the cache lives in a multiprocessing manager.  DisciplineJacApprox.auto_set_step does
  NOT zero the tolerance on the unmodified tree (steps and error estimates silently degenerate with a tolerant
  cache): patch notes/fixes/c16_auto_set_step_cache_tolerance.diff; the witnesses run with ``./check C16 --only Y``
  (not part of the default run until the patch is applied or the finding registered).
* check_jacobian(auto_set_step=True) (part B4): the statement bounds the error "for the step used"; the steps are the
  ones DisciplineJacApprox.auto_set_step returns for a twin discipline with the same defaults (it works at the defaults,
  independently of input_data), and the case is judged with the bounds derived for THOSE steps when they lie in the
  numerically safe range [1e-10, MARGIN) (otherwise counted as not judged: a vanishing output at the defaults gives a
  zero step today - the statement does not cover gemseo's step estimate itself).  auto_set_step is documented "for a
  forward first order finite differences gradient approximation"; CenteredDifferences also implements
  compute_optimal_step, ComplexStep does not (check_jacobian(derr_approx="complex_step", auto_set_step=True) raises
  AttributeError): the auto_set_step axis is crossed with FirstOrderFD and CenteredDifferences only.
* Part K, step taken from the instance (after compute_optimal_step: the "optimal" steps it stored): judged for that
  step when every component lies in [1e-10, MARGIN), else counted as not judged.  compute_optimal_step itself has no
  oracle but "no exception" (the statement says nothing on the steps it returns).  On the unmodified tree a SECOND
  compute_optimal_step on one instance (its ``step`` is then one value per component) raises a ValueError: patch
  notes/fixes/c16_optimal_step_per_component.diff; those histories run with ``./check C16 --only KO`` (not part of the
  default run until the patch is applied or the finding registered, see K_REPEATED_OPTIMAL_STEP).  The function must accept the keyword
  arguments it is called with; keyword arguments are values that CHANGE the output (a stale or dropped keyword
  argument is then an O(1) error, far above every bound).
* check_jacobian on a Jacobian wrong in a NOT selected entry: not specified by the statement, not checked.
* Discipline-level parallel differentiation uses processes (threads on one discipline are documented unsafe).
* DisciplineJacApprox differentiates a function of the differentiated inputs only; the other inputs are taken from the
  discipline's DEFAULTS, not from the input_data given to linearize/check_jacobian (y = a*b, defaults b = 0:
  linearize({a: 1, b: 2}) w.r.t. a in finite-difference mode returns 0 instead of 2).  That is how the discipline
  adapter is specified, so the enumerated points differ from the defaults only in differentiated inputs; witnesses of
  the behaviour run with ``./check C16 --only X`` (not part of the default run) and are reported separately.
* linearize may return more blocks than requested after a cache hit (also in analytic mode): only requested blocks
  are judged.
"""
from __future__ import annotations

import itertools
import math
import multiprocessing
import os
import queue as _queue
import time
import traceback

import numpy as np

from mc import product
from mc.core import Tally, chunks, pmap

LEVEL = "exploration"


class HarnessError(Exception):
    """The harness itself is inconsistent (never a property violation, never a silent pass)."""


EPS = 2.0 ** -52
K_ROUND = 32.0
MARGIN = 0.01  # the box on which the derivative bounds hold is the design box enlarged by MARGIN (> any step)
CLASSNAME = {"FD": "FirstOrderFD", "CD": "CenteredDifferences", "CS": "ComplexStep"}
MODE = {"FD": "finite_differences", "CD": "centered_differences", "CS": "complex_step"}

# ------------------------------------------------------------------------------------------------------
# value alphabets (rotated by VERIF_SEED; the enumerated structure never changes)
# ------------------------------------------------------------------------------------------------------
ALPHABETS = [
    {"steps": (1e-4, 1e-6), "vec": (1e-4, 1e-5, 1e-6, 3e-5), "cs_steps": (1e-20, 1e-30), "interior": (0.575, 0.22, 0.7, 0.41), "near": 0.5, "kw_c": (2.5, -0.5)},
    {"steps": (1e-3, 1e-5), "vec": (1e-5, 1e-3, 1e-4, 1e-6), "cs_steps": (1e-20, 1e-25), "interior": (0.31, 0.64, 0.45, 0.83), "near": 0.25, "kw_c": (-3.0, 0.25)},
    {"steps": (3e-4, 2e-6), "vec": (2e-6, 3e-4, 5e-5, 1e-5), "cs_steps": (1e-30, 1e-15), "interior": (0.79, 0.36, 0.28, 0.62), "near": 0.9, "kw_c": (0.4, -2.0)},
]


# ------------------------------------------------------------------------------------------------------
# test functions: sums of products of univariate factors, with exact derivatives and derived bounds
# ------------------------------------------------------------------------------------------------------
def _fac_eval(f, t):
    if f is None:
        return 1.0
    k = f[0]
    if k == "p":
        r = t
        for _ in range(f[1] - 1):
            r = r * t
        return r
    if k == "e":
        return np.exp(f[1] * t)
    if k == "s":
        return np.sin(f[1] * t)
    if k == "c":
        return np.cos(f[1] * t)
    raise ValueError(f)


def _fac_diff(f):
    """d/dt of a factor -> (multiplier, factor); multiplier 0.0 means the zero function."""
    if f is None:
        return 0.0, None
    k = f[0]
    if k == "p":
        return float(f[1]), (("p", f[1] - 1) if f[1] > 1 else None)
    if k == "e":
        return float(f[1]), f
    if k == "s":
        return float(f[1]), ("c", f[1])
    if k == "c":
        return -float(f[1]), ("s", f[1])
    raise ValueError(f)


def _fac_bound(f, B):
    if f is None:
        return 1.0
    k = f[0]
    if k == "p":
        return B ** f[1]
    if k == "e":
        return math.exp(abs(f[1]) * B)
    return 1.0


def _diff_terms(terms, j):
    out = []
    for c, facs in terms:
        mult, nf = _fac_diff(facs[j])
        if mult == 0.0:
            continue
        facs2 = list(facs)
        facs2[j] = nf
        out.append((c * mult, tuple(facs2)))
    return out


def _eval_terms(terms, x):
    s = 0.0
    for c, facs in terms:
        v = c
        for j, f in enumerate(facs):
            if f is not None:
                v = v * _fac_eval(f, x[j])
        s = s + v
    return s


def _bound_terms(terms, B):
    s = 0.0
    for c, facs in terms:
        v = abs(c)
        for j, f in enumerate(facs):
            v *= _fac_bound(f, B[j])
        s += v
    return s


def _mono(c, *exps):
    return (float(c), tuple(("p", e) if e else None for e in exps))


class TestFn:
    def __init__(self, name, outs, lb, ub, scalar_out=False):
        self.name = name
        self.outs = outs
        self.n = len(lb)
        self.m = len(outs)
        self.scalar_out = scalar_out  # the callable returns a 0-d number (as scalar MDOFunctions do)
        self.lb = np.array(lb, dtype=float)
        self.ub = np.array(ub, dtype=float)
        self.span = self.ub - self.lb
        self.B = np.maximum(np.abs(self.lb), np.abs(self.ub)) + MARGIN
        self.xmax = float(self.B.max())
        self._d = {0: [[o] * self.n for o in outs]}
        for k in (1, 2, 3):
            self._d[k] = [[_diff_terms(self._d[k - 1][i][j], j) for j in range(self.n)] for i in range(self.m)]
        self._bounds = {k: np.array([[_bound_terms(self._d[k][i][j], self.B) for j in range(self.n)] for i in range(self.m)]) for k in (0, 1, 2, 3)}
        assert len(max(outs, key=len)) <= 8 and self.n <= 5  # premises of K_ROUND (4n+2 <= 22 roundings per term + 7 additions <= 32)

    def value(self, x):
        v = [_eval_terms(o, x) for o in self.outs]
        if self.scalar_out:
            return np.asarray(v[0])[()]
        return np.array(v)

    def jac(self, x):
        return np.array([[float(np.real(_eval_terms(self._d[1][i][j], x))) for j in range(self.n)] for i in range(self.m)])

    def bound(self, k):
        """(m, n) array: bound of |d^k F_i / dx_j^k| on the enlarged box (k = 0: |F_i|, any column)."""
        return self._bounds[k]


_BOX3 = ([-2.0, -1.0, -1.5], [2.0, 1.5, 1.0])
_BOX2 = ([-2.0, -1.0], [2.0, 1.5])
_QUAD2 = [[_mono(1.5, 2, 0), _mono(-2, 1, 1), _mono(0.5, 0, 2), _mono(3, 1, 0), _mono(-1, 0, 1), _mono(0.25, 0, 0)]]
FUNCS = {
    f.name: f
    for f in [
        # cubic, 3 variables, 2 outputs (m != n)
        TestFn("cubic3", [[_mono(1, 3, 0, 0), _mono(2, 1, 1, 0), _mono(-1, 0, 0, 2)], [_mono(1, 1, 1, 1), _mono(1, 0, 2, 0)]], *_BOX3),
        # cubic, 2 variables, 2 outputs (m == n)
        TestFn("sq2", [[_mono(1, 3, 0), _mono(-1, 1, 2)], [_mono(1, 2, 1), _mono(2, 0, 1)]], [-1.0, -2.0], [1.5, 2.0]),
        # quadratic, 2 variables, one output returned as a (1,) array / as a 0-d scalar
        TestFn("quad2", _QUAD2, *_BOX2),
        TestFn("quad2s", _QUAD2, *_BOX2, scalar_out=True),
        # analytic, 3 variables, 2 outputs
        TestFn(
            "expsin3",
            [
                [(1.0, (("e", 0.5), ("s", 1.0), None)), _mono(1, 1, 0, 1)],
                [(1.0, (("s", 0.8), None, ("e", -0.3))), (1.0, (None, ("c", 1.1), ("p", 2)))],
            ],
            *_BOX3,
        ),
        # m == n == 3; also the body of the harness discipline (x1 = x[0], x2 = x[1:], y1 = F[0], y2 = F[1:])
        TestFn("disc33", [[_mono(1, 2, 1, 0), _mono(1, 0, 0, 1)], [_mono(1, 1, 1, 1)], [_mono(1, 0, 2, 0), _mono(1, 1, 0, 0), _mono(0.5, 0, 0, 3)]], *_BOX3),
        # 5 variables, 4 outputs: body of the second harness discipline (a = x[0:3], b = x[3:5], y = F[0:2], w = F[2:4]);
        # every block dy/da, dy/db, dw/da, dw/db is dense enough to tell a shifted column from the right one
        TestFn(
            "disc54",
            [
                [_mono(1, 1, 0, 0, 1, 0), _mono(1, 0, 2, 0, 0, 0), _mono(1, 0, 0, 1, 0, 0)],
                [_mono(1, 0, 1, 0, 0, 1), _mono(1, 0, 0, 2, 1, 0)],
                [_mono(1, 1, 0, 1, 0, 0), _mono(0.5, 0, 0, 0, 0, 3), _mono(1, 0, 0, 0, 1, 0), _mono(0.75, 0, 1, 0, 0, 0)],
                [_mono(1, 2, 0, 0, 0, 1), _mono(1, 0, 1, 1, 1, 0)],
            ],
            [-2.0, -1.0, -1.5, -1.0, -2.0],
            [2.0, 1.5, 1.0, 1.5, 1.0],
        ),
        # thorough tier: quartic, 4 variables, 3 outputs
        TestFn(
            "quart4",
            [
                [_mono(1, 4, 0, 0, 0), _mono(-2, 1, 1, 1, 0), _mono(1, 0, 0, 0, 2)],
                [_mono(1, 0, 2, 0, 1), _mono(0.5, 1, 0, 3, 0)],
                [(1.0, (("s", 0.6), None, None, ("e", 0.4))), _mono(1, 0, 1, 0, 0)],
            ],
            [-1.0, -1.5, -1.0, -2.0],
            [1.5, 1.0, 2.0, 1.0],
        ),
    ]
}
DEFAULT_FN = {2: "sq2", 3: "cubic3", 4: "quart4"}
QUICK_FUNCS = ["cubic3", "sq2", "quad2", "quad2s", "expsin3", "disc33"]
THOROUGH_FUNCS = [*QUICK_FUNCS, "quart4"]
QUICK_POINTS = ["interior", "zero", "on_ub", "on_lb", "near_ub"]
THOROUGH_POINTS = [*QUICK_POINTS, "near_lb", "all_ub", "mixed"]
POINT_FLAG = {
    "zero": "zero-component",
    "on_ub": "on-upper-bound",
    "on_lb": "on-lower-bound",
    "near_ub": "near-upper-bound",
    "near_lb": "near-lower-bound",
    "all_ub": "all-on-upper-bound",
    "mixed": "mixed-bound-point",
}


# ------------------------------------------------------------------------------------------------------
# evaluation log shared with forked children (process-parallel differentiation)
# ------------------------------------------------------------------------------------------------------
class _SharedLog:
    CAP = 64
    NMAX = 5

    def __init__(self):
        self.pid = None
        self.n = 0

    def reset(self, n):
        if self.pid != os.getpid():  # one private segment per harness worker, inherited by ITS children only
            self.arr = multiprocessing.RawArray("d", self.CAP * self.NMAX)
            self.cnt = multiprocessing.Value("i", 0)
            self.pid = os.getpid()
        self.n = n
        self.cnt.value = 0

    def add(self, u):
        with self.cnt.get_lock():
            k = self.cnt.value
            self.cnt.value = k + 1
        if k < self.CAP:
            self.arr[k * self.n : (k + 1) * self.n] = [float(v) for v in np.real(u)]

    def points(self):
        k = min(self.cnt.value, self.CAP)
        return np.array(self.arr[: k * self.n], dtype=float).reshape(k, self.n), self.cnt.value


_LOG = _SharedLog()


class _Probe:
    """The function handed to the approximator: logs the point, maps it to physical space, evaluates."""

    def __init__(self, fn, normalized=False):
        self.fn = fn
        self.set_map(fn.lb, fn.span) if normalized else self.set_map(np.zeros(fn.n), np.ones(fn.n))

    def set_map(self, off, scale):
        """x = off + u * scale (identity: off = 0, scale = 1, exact in floating point)."""
        self.off, self.scale = np.array(off, dtype=float), np.array(scale, dtype=float)

    def __call__(self, u):
        _LOG.add(u)
        return self.fn.value(self.off + u * self.scale)


# keyword arguments of the differentiated function (part K): ``c`` multiplies every output, ``body`` names another test
# function on the same box.  F(.; c, body) is itself a TestFn (the coefficients of ``body`` multiplied by c), so the
# oracle (exact derivative, term-wise bounds, rounding budget) applies to it verbatim.
KW_BODY = {"cubic3": "expsin3", "expsin3": "disc33", "disc33": "cubic3"}
_KW_FN: dict = {}


def _kw_fn(name, c=1.0):
    c = float(c)
    if c == 1.0:
        return FUNCS[name]
    if (name, c) not in _KW_FN:
        f = FUNCS[name]
        _KW_FN[name, c] = TestFn(f"{name}*{c!r}", [[(c * k, facs) for k, facs in o] for o in f.outs], f.lb, f.ub, f.scalar_out)
    return _KW_FN[name, c]


def _kw_eff(fn, fkw):
    return _kw_fn((fkw or {}).get("body") or fn.name, (fkw or {}).get("c", 1.0))


class _KwProbe(_Probe):
    """A function with keyword arguments that change its value: f(u, c=1.0, body=None)."""

    def __call__(self, u, c=1.0, body=None):
        _LOG.add(u)
        return _kw_fn(body or self.fn.name, c).value(self.off + u * self.scale)


def _approx_class(name):
    if name == "FD":
        from gemseo.utils.derivatives.finite_differences import FirstOrderFD as c
    elif name == "CD":
        from gemseo.utils.derivatives.centered_differences import CenteredDifferences as c
    else:
        from gemseo.utils.derivatives.complex_step import ComplexStep as c
    return c


def _design_space(fn):
    from gemseo.algos.design_space import DesignSpace

    ds = DesignSpace()
    ds.add_variable("a", 1, lower_bound=fn.lb[:1].copy(), upper_bound=fn.ub[:1].copy())
    ds.add_variable("b", fn.n - 1, lower_bound=fn.lb[1:].copy(), upper_bound=fn.ub[1:].copy())
    return ds


def _point(fn, kind, ds, hvec, alpha):
    n = fn.n
    t = np.array(alpha["interior"][:n], dtype=float)
    if ds == "norm":
        lbu, ubu, u = np.zeros(n), np.ones(n), t.copy()
    else:
        lbu, ubu, u = fn.lb.copy(), fn.ub.copy(), fn.lb + t * fn.span
    S, S2, near = sorted({0, n - 1}), [0, 1], alpha["near"]
    if kind == "zero":
        u[S] = 0.0
    elif kind == "on_ub":
        u[S] = ubu[S]
    elif kind == "on_lb":
        u[S2] = lbu[S2]
    elif kind == "near_ub":
        u[S] = ubu[S] - near * hvec[S]
    elif kind == "near_lb":
        u[S2] = lbu[S2] + near * hvec[S2]
    elif kind == "all_ub":
        u[:] = ubu
    elif kind == "mixed":
        u[0] = ubu[0]
        u[1] = ubu[1] - near * hvec[1]
        if n > 2:
            u[2] = lbu[2]
    elif kind != "interior":
        raise ValueError(kind)
    return u, lbu, ubu


def _tolerances(fn, approx, u, lbu, ubu, hvec, ds, cols, scale=None):
    """(m, len(cols)) tolerance matrix and the per-column order label, see the module docstring."""
    if scale is None:
        scale = fn.span if ds == "norm" else np.ones(fn.n)
    tol = np.zeros((fn.m, len(cols)))
    labels = []
    for c, j in enumerate(cols):
        g1, m2, m3 = fn.bound(1)[:, j], fn.bound(2)[:, j] * scale[j] ** 2, fn.bound(3)[:, j] * scale[j] ** 3
        fabs = fn.bound(0)[:, j]
        ref = K_ROUND * EPS * g1 * scale[j] + 4 * EPS * g1 * scale[j]
        if approx == "CS":
            delta = hvec[j] * (abs(u[j]) if u[j] != 0.0 else 1.0)
            tol[:, c] = 1.01 * delta**2 / 6.0 * m3 + K_ROUND * EPS * g1 * scale[j] + ref
            labels.append("rounding")
            continue
        h = hvec[j]
        r = (2 * K_ROUND * EPS * fabs + 6 * EPS * fn.xmax * g1) / h
        if approx == "FD":
            tol[:, c] = h / 2.0 * m2 + r + ref
            labels.append("o1")
        else:
            at_bound = ds != "none" and (u[j] + h > ubu[j] or u[j] - h < lbu[j])
            if at_bound:
                tol[:, c] = h / 2.0 * m2 + h**2 / 6.0 * m3 + r + ref
                labels.append("o1@bound")
            else:
                tol[:, c] = h**2 / 6.0 * m3 + r / 2.0 + ref
                labels.append("o2")
    return tol, labels


def _pattern(approx, u, pts, cols):
    if approx == "CS":
        return "imag"
    if len(pts) == 0:
        return "nocalls"
    seen = {}
    for p in pts:
        d = p - u
        nz = np.nonzero(d)[0]
        for j in nz:
            seen.setdefault(int(j), set()).add("+" if d[j] > 0 else "-")
    kinds = set()
    for j in cols:
        s = seen.get(j, set())
        kinds.add({"+": "fwd", "-": "bwd", "+-": "2sided", "": "none"}["".join(sorted(s))])
    return ",".join(sorted(kinds))


def _resolve_step(case, fn, alpha):
    """-> (step object given to gemseo, per-component step vector in approximator coordinates)."""
    n = fn.n
    if case["approx"] == "CS":
        s = alpha["cs_steps"][0 if case["step"] == "s1" else 1]
        return s, np.full(n, s)
    if case["step"] == "vec":
        v = np.array(alpha["vec"][:n], dtype=float)
        return v, v.copy()
    s = alpha["steps"][0 if case["step"] == "s1" else 1]
    return s, np.full(n, s)


def _one_call(fn, approx, ap, probe, u, lbu, ubu, has_ds, call_step, step_repr, hvec, idx, fkw=None):
    """One f_gradient call on ``ap`` judged by the full oracle (shape, error bound, evaluation log); ``fkw``: the
    keyword arguments of the function given to this call - the function judged is F(.; **fkw)."""
    n = fn.n
    fn = _kw_eff(fn, fkw)
    cols = idx or list(range(n))
    scale = probe.scale
    expected = (fn.jac(probe.off + u * scale) * scale)[:, cols]
    tol, labels = _tolerances(fn, approx, u, lbu, ubu, hvec, "given" if has_ds else "none", cols, scale=scale)
    exp_shape = (len(cols),) if fn.scalar_out else (fn.m, len(cols))
    obs = {"x": u.tolist(), "step": step_repr, "x_indices": idx, "expected": expected.tolist(), "tolerance": tol.tolist()}
    viols = []
    _LOG.reset(n)
    try:
        jac = ap.f_gradient(u.copy(), step=call_step, x_indices=idx, **(fkw or {}))
    except Exception as e:  # noqa: BLE001 - any exception on a legal call is an observation
        viols.append(("no-exception", f"{type(e).__name__}: {str(e)[:200]}"))
        obs["raised"] = f"{type(e).__name__}: {str(e)[:200]}"
        obs["pattern"] = "raised"
        return viols, obs
    jac = np.asarray(jac)
    pts, n_calls = _LOG.points()
    obs.update(jacobian=jac.tolist(), n_calls=n_calls, pattern=_pattern(approx, u, pts, cols), order=",".join(sorted(set(labels))))
    if n_calls < len(set(cols)):  # the log is the harness' eyes: fewer calls than differentiated components means it is blind
        raise HarnessError(f"evaluation log saw {n_calls} calls for {len(cols)} columns")
    if jac.shape != exp_shape:
        viols.append(("shape", f"shape {jac.shape}, expected {exp_shape}"))
    else:
        j2 = jac.reshape(fn.m, len(cols))
        if not np.isfinite(j2).all():
            viols.append(("finite-jacobian", f"jacobian={j2.tolist()} expected={expected.tolist()}"))
        else:
            err = np.abs(j2 - expected)
            obs["tightness"] = float((err / tol).max())  # observed error / derived bound (sharpness of the oracle)
            bad = ~(err <= tol)
            if bad.any():
                i, c = map(int, np.argwhere(bad)[0])
                viols.append(("error-bound", f"|J-exact|[{i},{cols[c]}]={err[i, c]:.3e} > bound {tol[i, c]:.3e} ({labels[c]}); J={j2.tolist()} exact={expected.tolist()}"))
    if len(pts) and (np.abs(probe.off + pts * scale) > fn.B).any():
        # outside the box on which the derivative bounds were derived: the accuracy oracle is void there
        viols.append(("evaluation-far-outside-box", f"points={pts.tolist()}"))
    if has_ds and len(pts):
        over = pts - ubu
        slack = 4 * EPS * np.maximum(1.0, np.abs(np.where(np.isfinite(ubu), ubu, 1.0)))
        if (over > slack).any():
            k, j = map(int, np.argwhere(over > slack)[0])
            viols.append(("upper-bound-exceeded", f"evaluation at {pts[k].tolist()} exceeds upper bound {ubu.tolist()} in component {j} by {over[k, j]:.3e} (x={u.tolist()}, step={step_repr})"))
        obs["below_lower_bound"] = int((pts < lbu - slack).any())
    return viols, obs


def exec_A(case):
    """Run one approximator-level case on the real code. -> (violations [(invariant, message)], observation)."""
    fn = FUNCS[case["fn"]]
    alpha = ALPHABETS[case["alpha"]]
    approx, ds, idx, n = case["approx"], case["ds"], list(case["idx"]), fn.n
    step, hvec = _resolve_step(case, fn, alpha)
    # "within one step" for the complex step (relative step ~1e-20) is meaningless: use 1e-6 for the point only
    u, lbu, ubu = _point(fn, case["point"], ds, hvec if approx != "CS" else np.full(n, 1e-6), alpha)
    kwargs = {"design_space": _design_space(fn) if ds != "none" else None, "normalize": ds == "norm", "parallel": bool(case["par"])}
    if case["par"]:
        kwargs["n_processes"] = 2
    probe = _Probe(fn, ds == "norm")
    step_repr = np.asarray(step).tolist()
    try:
        ap = _approx_class(approx)(probe, step=step if case["via"] == "ctor" else None, **kwargs)
    except Exception as e:  # noqa: BLE001
        return [("no-exception", f"{type(e).__name__}: {str(e)[:200]}")], {"raised": f"{type(e).__name__}: {str(e)[:200]}", "pattern": "raised"}
    call_step = (np.array(step) if isinstance(step, np.ndarray) else step) if case["via"] == "call" else None
    return _one_call(fn, approx, ap, probe, u, lbu, ubu, ds != "none", call_step, step_repr, hvec, idx)


# ------------------------------------------------------------------------------------------------------
# Part H: two calls on the SAME approximator instance, the SAME DesignSpace object edited in between
# ------------------------------------------------------------------------------------------------------
# edit -> positions of the second point (components S = {0, n-1}, one in each design variable) that make a stale
# view of the bounds visible.  "onto/just above the second point" = the point is put on / within one step of the
# NEW bound.
HIST_EDITS = {
    "none": ["near_ub"],
    "ub_tighten": ["on_ub", "near_ub"],
    "ub_inf_to_finite": ["on_ub", "near_ub"],
    "ub_loosen": ["past_old_ub", "near_ub"],
    "ub_finite_to_inf": ["near_old_ub"],
    "lb_tighten": ["on_lb", "near_lb", "near_ub"],
    "lb_inf_to_finite": ["on_lb", "near_lb", "near_ub"],
    "lb_loosen": ["past_old_lb", "near_ub"],
    "lb_finite_to_inf": ["near_old_lb", "near_ub"],
}
HIST_VALID_POS = {e: set(p) | ({"interior"} if e != "ub_finite_to_inf" else {"interior"}) for e, p in HIST_EDITS.items()}
HIST_VALID_POS["none"] |= {"on_ub", "on_lb", "near_lb"}


def _hist_bounds(fn, edit):
    """-> (lb before, ub before, lb after, ub after); only the components S are edited."""
    n = fn.n
    S = sorted({0, n - 1})
    lb0, ub0, lb2, ub2 = fn.lb.copy(), fn.ub.copy(), fn.lb.copy(), fn.ub.copy()
    if edit == "ub_tighten":
        ub2[S] = fn.lb[S] + 0.8 * fn.span[S]
    elif edit == "ub_inf_to_finite":
        ub0[S] = np.inf
    elif edit == "ub_loosen":
        ub0[S] = fn.lb[S] + 0.6 * fn.span[S]
    elif edit == "ub_finite_to_inf":
        ub2[S] = np.inf
    elif edit == "lb_tighten":
        lb2[S] = fn.lb[S] + 0.2 * fn.span[S]
    elif edit == "lb_inf_to_finite":
        lb0[S] = -np.inf
    elif edit == "lb_loosen":
        lb0[S] = fn.lb[S] + 0.4 * fn.span[S]
    elif edit == "lb_finite_to_inf":
        lb2[S] = -np.inf
    elif edit != "none":
        raise ValueError(edit)
    return lb0, ub0, lb2, ub2


def _coords(lb, ub, normalize):
    """Own model of the coordinates of a (partly unbounded) design space: only components with two finite bounds
    are normalized. -> (off, scale, lower bound, upper bound in approximator coordinates)"""
    norm = np.isfinite(lb) & np.isfinite(ub) & bool(normalize)
    safe_lb, safe_ub = np.where(norm, lb, 0.0), np.where(norm, ub, 1.0)
    return safe_lb, safe_ub - safe_lb, np.where(norm, 0.0, lb), np.where(norm, 1.0, ub)


def exec_H(case):
    from gemseo.algos.design_space import DesignSpace

    fn = FUNCS[case["fn"]]
    alpha = ALPHABETS[case["alpha"]]
    approx, normalize, edit, pos, idx2, n = case["approx"], bool(case["normalize"]), case["edit"], case["pos"], list(case["idx2"]), fn.n
    S = sorted({0, n - 1})
    step, hvec = _resolve_step(case, fn, alpha)
    hpt = hvec if approx != "CS" else np.full(n, 1e-6)
    near = alpha["near"]
    lb0, ub0, lb2, ub2 = _hist_bounds(fn, edit)
    ds = DesignSpace()
    parts = (("a", slice(0, 1)), ("b", slice(1, n)))
    for name, sl in parts:
        ds.add_variable(name, sl.stop - sl.start, lower_bound=lb0[sl].copy(), upper_bound=ub0[sl].copy())
    probe = _Probe(fn)
    step_repr = np.asarray(step).tolist()
    call_step = lambda: np.array(step) if isinstance(step, np.ndarray) else step  # noqa: E731
    viols, obs = [], {}
    try:
        ap = _approx_class(approx)(probe, design_space=ds, normalize=normalize)
    except Exception as e:  # noqa: BLE001
        return [("no-exception", f"{type(e).__name__}: {str(e)[:200]}")], {"raised": str(e)[:200]}
    # first call: interior of the initial space
    t1 = np.array(alpha["interior"][:n], dtype=float)
    lo, hi = np.where(np.isfinite(lb0), lb0, fn.lb), np.where(np.isfinite(ub0), ub0, fn.ub)
    off, scale, lbu, ubu = _coords(lb0, ub0, normalize)
    probe.set_map(off, scale)
    u1 = (lo + t1 * (hi - lo) - off) / scale
    v1, o1 = _one_call(fn, approx, ap, probe, u1, lbu, ubu, True, call_step(), step_repr, hvec, [])
    viols += [("first-call:" + i, m) for i, m in v1]
    obs["first_call"] = {k: o1[k] for k in ("x", "jacobian", "pattern") if k in o1}
    # the edit, on the same DesignSpace object
    for name, sl in parts:
        if not np.array_equal(ub0[sl], ub2[sl]):
            ds.set_upper_bound(name, ub2[sl].copy())
        if not np.array_equal(lb0[sl], lb2[sl]):
            ds.set_lower_bound(name, lb2[sl].copy())
    # second call
    t2 = t1[::-1].copy()
    lo, hi = np.where(np.isfinite(lb2), lb2, fn.lb), np.where(np.isfinite(ub2), ub2, fn.ub)
    off, scale, lbu, ubu = _coords(lb2, ub2, normalize)
    probe.set_map(off, scale)
    u2 = (lo + t2 * (hi - lo) - off) / scale
    if pos == "on_ub":
        u2[S] = ubu[S]
    elif pos == "near_ub":
        u2[S] = ubu[S] - near * hpt[S]
    elif pos == "on_lb":
        u2[S] = lbu[S]
    elif pos == "near_lb":
        u2[S] = lbu[S] + near * hpt[S]
    elif pos == "past_old_ub":  # between the old and the new upper bound
        u2[S] = ((fn.lb + 0.75 * fn.span - off) / scale)[S]
    elif pos == "past_old_lb":
        u2[S] = ((fn.lb + 0.25 * fn.span - off) / scale)[S]
    elif pos == "near_old_ub":  # the component is unbounded above now
        u2[S] = ((ub0 - off) / scale)[S] - near * hpt[S]
    elif pos == "near_old_lb":
        u2[S] = ((lb0 - off) / scale)[S] + near * hpt[S]
    elif pos != "interior":
        raise ValueError(pos)
    if not (np.isfinite(u2).all() and (u2 <= ubu).all() and (u2 >= lbu).all()):
        raise HarnessError(f"second point {u2} outside the edited design space [{lbu}, {ubu}]")
    v2, o2 = _one_call(fn, approx, ap, probe, u2, lbu, ubu, True, call_step(), step_repr, hvec, idx2)
    viols += v2
    obs.update(o2)
    obs["bounds_after_edit"] = [lbu.tolist(), ubu.tolist()]
    return viols, obs


# ------------------------------------------------------------------------------------------------------
# Part K: keyword arguments of the function x serial / process-parallel x histories on ONE approximator
# ------------------------------------------------------------------------------------------------------
SAFE_STEP = (1e-10, MARGIN)  # "numerically safe range" for a step the harness did not choose itself (part K, B4)


def _kw(name, fn, alpha):
    c1, c2 = alpha["kw_c"]
    other = KW_BODY[fn.name]
    return {"none": {}, "c": {"c": c1}, "cb": {"c": c2, "body": other}, "b": {"body": other}, "c1": {"c": 1.0}}[name]


def exec_K(case):
    """A history of calls on ONE approximator: f_gradient(x, **kwargs) ("g") / compute_optimal_step(x, **kwargs) ("o")
    with keyword arguments from the alphabet, then f_gradient(x, **kwargs of the last call), judged like a fresh call
    for the function WITH THE KEYWORD ARGUMENTS OF THAT CALL.  The step of the last call is given at the call, or
    taken from the instance (what the constructor / the last compute_optimal_step left in ``step``; judged for that
    step when it lies in the safe range)."""
    fn = FUNCS[case["fn"]]
    alpha = ALPHABETS[case["alpha"]]
    approx, n, idx = case["approx"], fn.n, list(case["idx"])
    s1 = alpha["cs_steps"][0] if approx == "CS" else alpha["steps"][0]
    probe = _KwProbe(fn)
    for k in {kn for _, kn in case["hist"]} | {case["last"]}:  # built before any fork: the children inherit them
        _kw_eff(fn, _kw(k, fn, alpha))
    kwargs = {"parallel": True, "n_processes": 2} if case["par"] else {}
    try:
        ap = _approx_class(approx)(probe, step=s1, **kwargs)
    except Exception as e:  # noqa: BLE001
        return [("no-exception", f"{type(e).__name__}: {str(e)[:200]}")], {"raised": f"{type(e).__name__}: {str(e)[:200]}", "pattern": "raised"}
    u, lbu, ubu = _point(fn, "interior", "none", np.full(n, 1e-6), alpha)
    u_first = fn.lb + np.array(alpha["interior"][:n][::-1], dtype=float) * fn.span  # the earlier calls are made elsewhere
    for op, kn in case["hist"]:
        kw = _kw(kn, fn, alpha)
        _LOG.reset(n)
        try:
            if op == "g":
                ap.f_gradient(u_first.copy(), step=s1, **kw)
            else:
                ap.compute_optimal_step(u_first.copy(), **kw)
        except Exception as e:  # noqa: BLE001
            return [("no-exception", f"in the history, {op}({kn}): {type(e).__name__}: {str(e)[:200]}")], {"raised": f"{type(e).__name__}: {str(e)[:200]}", "pattern": "raised"}
    if case["stepmode"] == "call":
        call_step, hvec = s1, np.full(n, s1)
    else:
        call_step, hvec = None, np.array(np.broadcast_to(np.real(np.asarray(ap.step)).astype(float), (n,)))
        if approx != "CS" and not ((hvec >= SAFE_STEP[0]) & (hvec < SAFE_STEP[1])).all():
            return [], {"pattern": "instance-step-outside-safe-range:not-judged", "step": hvec.tolist()}
    return _one_call(fn, approx, ap, probe, u, lbu, ubu, False, call_step, hvec.tolist(), hvec, idx, fkw=_kw(case["last"], fn, alpha))


# ------------------------------------------------------------------------------------------------------
# Part B: discipline level
# ------------------------------------------------------------------------------------------------------
LAYOUTS = {
    # one scalar-like variable followed by a vector: the subset can only be strict on the LAST input variable
    "toy33": {"fn": "disc33", "ins": {"x1": [0], "x2": [1, 2]}, "outs": {"y1": [0], "y2": [1, 2]}},
    # two vector inputs (sizes 3 and 2) and two vector outputs: a strict subset on the FIRST variable shifts the flat
    # positions of the second one if the cursor arithmetic of _compute_variable_indices is wrong
    "toy54": {"fn": "disc54", "ins": {"a": [0, 1, 2], "b": [3, 4]}, "outs": {"y": [0, 1], "w": [2, 3]}},
}
WRONG_DELTA = 1.0
_TOY = None
_SCRATCH = None  # set by run()/replay(): directory for the reference-Jacobian files written by check_jacobian


def _lay(case):
    lay = LAYOUTS[case.get("layout", "toy33")]
    return FUNCS[lay["fn"]], lay["ins"], lay["outs"]


CACHES = [["NONE"], ["SIMPLE", 0.0], ["SIMPLE", 1e-4], ["SIMPLE", 1e-12], ["MEMORY_FULL", 0.0], ["MEMORY_FULL", 1e-4], ["MEMORY_FULL", 1e-12]]


def _toy(layout, point, wrong=None, cache=None):
    """``cache``: None = the discipline's default cache (SimpleCache, tolerance 0) or [type(, tolerance)];
    1e-4 is far above every differentiation step, 1e-12 is below the real steps and above the complex ones."""
    d = _toy0(layout, point, wrong)
    if cache:
        d.set_cache(getattr(d.CacheType, cache[0]), **({"tolerance": cache[1]} if len(cache) > 1 else {}))
    return d


def _toy0(layout, point, wrong=None):
    global _TOY
    if _TOY is None:
        from gemseo.core.discipline import Discipline

        class C16Toy(Discipline):
            default_grammar_type = Discipline.GrammarType.SIMPLE

            def __init__(self, layout, x0, wrong):
                super().__init__()
                lay = LAYOUTS[layout]
                self.fn, self.ins, self.outs = FUNCS[lay["fn"]], lay["ins"], lay["outs"]
                self.io.input_grammar.update_from_types(dict.fromkeys(self.ins, np.ndarray))
                self.io.output_grammar.update_from_types(dict.fromkeys(self.outs, np.ndarray))
                self.io.input_grammar.defaults = {k: np.array(x0[c]) for k, c in self.ins.items()}
                self.wrong = wrong
                self.n_runs = 0

            def _x(self, data):
                x = np.zeros(self.fn.n, dtype=np.result_type(*[np.asarray(data[k]).dtype for k in self.ins]))
                for k, c in self.ins.items():
                    x[c] = data[k]
                return x

            def _run(self, input_data):
                self.n_runs += 1
                f = self.fn.value(self._x(input_data))
                return {k: f[r] for k, r in self.outs.items()}

            def _compute_jacobian(self, input_names=(), output_names=()):
                j = self.fn.jac(np.real(self._x(self.io.data)))
                self.jac = {o: {i: j[np.ix_(r, c)].copy() for i, c in self.ins.items()} for o, r in self.outs.items()}
                if self.wrong:
                    o, r, i, c = self.wrong
                    if r == "zero" and o == "*":  # a null Jacobian
                        for blocks in self.jac.values():
                            for blk in blocks.values():
                                blk[:] = 0.0
                    elif r == "zero":  # the derivatives of output o w.r.t. input i are "forgotten"
                        self.jac[o][i][:] = 0.0
                    else:
                        self.jac[o][i][r, c] += WRONG_DELTA

        _TOY = C16Toy
    return _TOY(layout, point, wrong)


def _disc_point(fn, kind, alpha, second=False):
    a = alpha if not second else {**alpha, "interior": tuple(reversed(alpha["interior"])) + alpha["interior"]}
    if fn.n > len(a["interior"]):
        a = {**a, "interior": tuple(a["interior"]) + tuple(1.0 - t for t in a["interior"])}
    u, _, _ = _point(fn, kind, "none", np.full(fn.n, 1e-6), a)
    return u


def _disc_step(case, alpha, fn, ins):
    """-> (step argument, per-component vector over ALL components of the layout)."""
    a = case["mode"]
    n = fn.n
    if case["step"] == "default":
        return None, np.full(n, 1e-7)
    if case["step"] == "vec":
        pool = tuple(alpha["vec"]) + tuple(alpha["vec"])
        full = np.array(pool[:n], dtype=float)
        cols = [j for i in (case.get("I") or list(ins)) for j in ins[i]]
        # a list: what a user would type; DisciplineJacApprox documents "an iterable of floats with the same length as the inputs"
        return [float(full[j]) for j in cols], full
    s = alpha["cs_steps"][0] if a == "CS" else alpha["steps"][1]
    return s, np.full(n, s)


def _disc_tol(fn, a, x, hvec):
    tol, _ = _tolerances(fn, a, x, fn.lb, fn.ub, hvec, "none", list(range(fn.n)))
    return tol


def _decode_sel(sel):
    out = {}
    for k, v in sel.items():
        if isinstance(v, str) and v.startswith("slice:"):
            a, b = v.split(":")[1:]
            out[k] = slice(int(a), int(b))
        elif v == "...":
            out[k] = Ellipsis
        elif v == "none":
            out[k] = None
        else:
            out[k] = v
    return out


def _selected(sel, name, size):
    """Own reading of the documented ``indices`` forms -> list of selected components of ``name``."""
    if name not in sel:
        return list(range(size))
    v = sel[name]
    if isinstance(v, int):
        return [v]
    if isinstance(v, list):
        return list(v)
    if isinstance(v, str) and v.startswith("slice:"):
        a, b = v.split(":")[1:]
        return list(range(size))[slice(int(a), int(b))]
    return list(range(size))  # "..." / "none"


def _flat_cols(sel, names, ins):
    """Flat positions (in the vector made of the variables ``names``, in this order) of the selected components
    -> (positions in that vector, the same components as columns of the full layout)."""
    pos, cols, cursor = [], [], 0
    for i in names:
        for k in _selected(sel, i, len(ins[i])):
            pos.append(cursor + k)
            cols.append(ins[i][k])
        cursor += len(ins[i])  # the FULL size of the variable
    return pos, cols


def _data(ins, x):
    return {k: x[c].copy() for k, c in ins.items()}


def _check_jacobian(d, case, data, a, thr, step, sel, names_in, names_out, **extra):
    """Discipline.check_jacobian; returns (verdict, approximated Jacobian saved by the call itself or None)."""
    kw = {**extra} if step is None else {"step": step, **extra}
    path = None
    if _SCRATCH and not case.get("wrong"):
        path = os.path.join(_SCRATCH, f"ref_{os.getpid()}.pkl")
        kw.update(reference_jacobian_path=path, save_reference_jacobian=True)
    ok = d.check_jacobian(data, derr_approx=MODE[a], threshold=thr, input_names=list(names_in), output_names=list(names_out), indices=_decode_sel(sel), **kw)
    approx = None
    if path:
        import pickle

        with open(path, "rb") as f:
            approx = pickle.load(f)
        os.remove(path)
    return ok, approx


def _threshold(fn, tol):
    thr = max(1e-6, 4.0 * float(tol.max()))
    if not (thr * (3.0 + float(fn.bound(1).max())) + float(tol.max()) < 0.5 * WRONG_DELTA):
        raise HarnessError("threshold does not separate correct from wrong Jacobians")
    return thr


def _judge_check(case, ok, approx, sel, names_in, names_out, lay, exact, tol, step, thr):
    fn, ins, outs = lay
    viols = []
    expected_ok = not case["wrong"]
    if case["wrong"] and case["wrong"][1] == "zero":
        o, _, i, _ = case["wrong"]
        no_, ni_ = (list(names_out) or list(outs), list(names_in) or list(ins)) if o == "*" else ([o], [i])
        rows = [outs[o][k] for o in no_ for k in _selected(sel, o, len(outs[o]))]
        cols = [ins[i][k] for i in ni_ for k in _selected(sel, i, len(ins[i]))]
        if not (np.abs(exact[np.ix_(rows, cols)]).max() > 0.05 > 100 * thr * (2.0 + float(fn.bound(1).max()))):
            return viols  # the forgotten block is (nearly) zero on the selected entries: no verdict is specified
    if bool(ok) != expected_ok:
        inv = "check_jacobian-accepts-correct" if expected_ok else "check_jacobian-rejects-wrong-selected-entry"
        viols.append((inv, f"check_jacobian returned {ok}; analytic Jacobian {'is exact' if expected_ok else 'is wrong by %s in entry %s' % (WRONG_DELTA, case['wrong'])}; indices={sel} inputs={list(names_in)} outputs={list(names_out)} step={step} threshold={thr:.2e}"))
    if approx is not None:  # the reference Jacobian the call computed: selected columns exact, the others zero
        ni, no = list(names_in) or list(ins), list(names_out) or list(outs)
        _, cols = _flat_cols(sel, ni, ins)
        strict = set(cols) != {j for i in ni for j in ins[i]}
        if sorted(approx) != sorted(no) or any(sorted(approx[o]) != sorted(ni) for o in approx):
            viols.append(("jacobian-keys", f"reference Jacobian has {[(o, sorted(v)) for o, v in approx.items()]}, expected {no} x {ni}"))
        else:
            viols += [("check_jacobian-reference:" + i, m + f" (indices={sel})") for i, m in _compare_blocks(approx, ni, no, exact, tol, cols if strict else None, ins, outs)]
    return viols


def exec_B(case):
    alpha = ALPHABETS[case["alpha"]]
    lay = _lay(case)
    fn, ins, outs = lay
    layout = case.get("layout", "toy33")
    a = case["mode"]
    x = _disc_point(fn, case.get("point", "interior"), alpha)
    step, hvec = _disc_step(case, alpha, fn, ins)
    if case["part"] == "B1" and case["setup"] == "setter":  # the setter installs the default approximation (step 1e-7)
        step, hvec = None, np.full(fn.n, 1e-7)
    tol = _disc_tol(fn, a, x, hvec)
    exact = fn.jac(x)
    data = _data(ins, x)
    obs = {"x": x.tolist(), "step": step}
    viols = []
    part = case["part"]
    try:
        if part == "B1":
            d = _toy(layout, x, cache=case.get("cache"))
            if case["setup"] == "setter":
                d.linearization_mode = MODE[a]
            else:
                d.set_jacobian_approximation(MODE[a], **({} if step is None else {"jax_approx_step": step}))
            if case["din"] is None:
                jac = d.linearize(data, compute_all_jacobians=True)
                ni, no = list(ins), list(outs)
            else:
                ni, no = list(case["din"]), list(case["dout"])
                d.add_differentiated_inputs(ni)
                d.add_differentiated_outputs(no)
                jac = d.linearize(data)
            obs["n_runs"] = d.n_runs
            if sorted(jac) != sorted(no) or any(sorted(jac[o]) != sorted(ni) for o in jac):
                viols.append(("jacobian-keys", f"got {[(o, sorted(v)) for o, v in jac.items()]}, expected outputs {no} x inputs {ni}"))
            else:
                viols += _compare_blocks(jac, ni, no, exact, tol, None, ins, outs)
        elif part == "B3":
            from gemseo.utils.derivatives.derivatives_approx import DisciplineJacApprox

            d = _toy(layout, x, cache=case.get("cache"))
            d.execute(data)
            kw = {"parallel": True, "n_processes": 2} if case["par"] else {}
            ap = DisciplineJacApprox(d, MODE[a], **({} if step is None else {"step": step}), **kw)
            jac = ap.compute_approx_jac(list(outs), list(ins), list(case["xidx"]))
            viols += _compare_blocks(jac, list(ins), list(outs), exact, tol, list(case["xidx"]) or None, ins, outs)
        elif part == "B2":
            d = _toy(layout, x, tuple(case["wrong"]) if case["wrong"] else None, cache=case.get("cache"))
            thr = _threshold(fn, tol)
            ok, approx = _check_jacobian(d, case, data, a, thr, step, case["sel"], case["I"], case["O"])
            obs.update(result=bool(ok), threshold=thr)
            viols += _judge_check(case, ok, approx, case["sel"], case["I"], case["O"], lay, exact, tol, step, thr)
        else:
            raise ValueError(part)
    except HarnessError:
        raise
    except Exception as e:  # noqa: BLE001
        viols.append(("no-exception", f"{type(e).__name__}: {str(e)[:200]}"))
        obs["raised"] = f"{type(e).__name__}: {str(e)[:200]}"
    return _dedupe(viols), obs


B4_DATA = {
    # form of input_data -> (kind of the point, which variables are GIVEN in input_data)
    "empty": (None, "none"),  # input_data = {}: the defaults
    "defaults": (None, "all"),  # the defaults, passed explicitly
    "point2": ("interior", "all"),  # another interior point
    "zero": ("zero", "all"),  # a point with zero components
    "on_ub": ("on_ub", "all"),
    "partial": ("interior", "last"),  # only the last input variable is given (off its default), the others are absent
}


def _auto_steps(layout, x0, a, step, ni, no):
    """The steps DisciplineJacApprox.auto_set_step chooses for this discipline (it works at the DEFAULT inputs, whatever
    input_data is): obtained from a twin discipline with the same defaults, so that the check_jacobian call under test
    is judged for "the step used".  -> per-component vector over all the columns of the layout (nan: not differentiated)."""
    from gemseo.utils.derivatives.derivatives_approx import DisciplineJacApprox

    lay = LAYOUTS[layout]
    tw = _toy(layout, x0)
    _, st = DisciplineJacApprox(tw, MODE[a], step=step).auto_set_step(list(no), list(ni), print_errors=False)
    h = np.full(FUNCS[lay["fn"]].n, np.nan)
    for i in ni:
        h[lay["ins"][i]] = np.asarray(st[i], dtype=float)
    return h


def exec_B4(case):
    """Discipline.check_jacobian x auto_set_step {off, on} x input_data {absent, the defaults, non-default points, only
    some variables} x method x input/output names x indices x {exact Jacobian, one wrong selected entry}: the analytic
    and the approximated Jacobians are both those AT input_data, whatever auto_set_step evaluated before."""
    alpha = ALPHABETS[case["alpha"]]
    lay = _lay(case)
    fn, ins, outs = lay
    layout, a = case["layout"], case["mode"]
    ni, no = list(case["I"]) or list(ins), list(case["O"]) or list(outs)
    x0 = _disc_point(fn, "interior", alpha)
    kind, given = B4_DATA[case["data"]]
    x = x0.copy() if kind is None else _disc_point(fn, kind, alpha, second=True)
    last = list(ins)[-1]
    for i, c in ins.items():
        # oracle boundary (registered known finding): the inputs that are not differentiated are read from the DEFAULTS
        if i not in ni or (given == "last" and i != last):
            x[c] = x0[c]
    data = {} if given == "none" else {last: x[ins[last]].copy()} if given == "last" else _data(ins, x)
    step, hvec = _disc_step(case, alpha, fn, ins)
    obs = {"x": x.tolist(), "defaults": x0.tolist(), "step": step}
    viols = []
    try:
        extra = {}
        if case["auto"]:
            hvec = _auto_steps(layout, x0, a, step, ni, no)
            obs["auto_steps"] = hvec.tolist()
            cols = [j for i in ni for j in ins[i]]
            if not ((hvec[cols] >= SAFE_STEP[0]) & (hvec[cols] < SAFE_STEP[1])).all():
                obs["result"] = "auto-step-outside-safe-range:not-judged"  # the statement gives no bound for such steps
                return viols, obs
            hvec = np.where(np.isfinite(hvec), hvec, float(step))  # columns that are not differentiated: never judged
            extra["auto_set_step"] = True
        if case.get("par"):
            extra.update(parallel=True, n_processes=2)
        tol, exact = _disc_tol(fn, a, x, hvec), fn.jac(x)
        thr = _threshold(fn, tol)
        d = _toy(layout, x0, tuple(case["wrong"]) if case["wrong"] else None)
        ok, approx = _check_jacobian(d, case, data, a, thr, step, case["sel"], case["I"], case["O"], **extra)
        obs.update(result=bool(ok), threshold=thr)
        viols += _judge_check(case, ok, approx, case["sel"], case["I"], case["O"], lay, exact, tol, step, thr)
    except HarnessError:
        raise
    except Exception as e:  # noqa: BLE001
        viols.append(("no-exception", f"{type(e).__name__}: {str(e)[:200]}"))
        obs["raised"] = f"{type(e).__name__}: {str(e)[:200]}"
    return _dedupe(viols), obs


def exec_HB(case):
    """Two calls on the SAME discipline / DisciplineJacApprox object (layout toy54); the second is judged as a fresh one."""
    from gemseo.utils.derivatives.derivatives_approx import DisciplineJacApprox

    alpha = ALPHABETS[case["alpha"]]
    lay = _lay(case)
    fn, ins, outs = lay
    layout, a, kind = case["layout"], case["mode"], case["kind"]
    x1 = _disc_point(fn, "interior", alpha)
    x2 = x1.copy() if case["same_point"] else _disc_point(fn, case.get("point", "interior"), alpha, second=True)
    step, hvec = _disc_step(case, alpha, fn, ins)
    tol, exact = _disc_tol(fn, a, x2, hvec), fn.jac(x2)
    obs, viols = {"x1": x1.tolist(), "x2": x2.tolist(), "step": step}, []
    try:
        if kind == "linearize":
            d = _toy(layout, x1, cache=case.get("cache"))
            d.set_jacobian_approximation(MODE[a], **({} if step is None else {"jax_approx_step": step}))
            # add_differentiated_* accumulate (documented: "Add the inputs ..."): the second request is the union
            ni = {i for cfg in (case["first"], case["second"]) if cfg for i in cfg[0]}
            no = {o for cfg in (case["first"], case["second"]) if cfg for o in cfg[1]}
            ei, eo = (list(ins), list(outs)) if case["second"] is None else (sorted(ni), sorted(no))
            if not case.get("free_point"):
                # oracle boundary: DisciplineJacApprox differentiates a function of the differentiated inputs only, the
                # other inputs are taken from the discipline's DEFAULTS, not from input_data (see part X); the second
                # point therefore differs from the defaults (= the first point) only in the differentiated inputs
                for i, c in ins.items():
                    if i not in ei:
                        x2[c] = x1[c]
                tol, exact = _disc_tol(fn, a, x2, hvec), fn.jac(x2)
                obs["x2"] = x2.tolist()
            for cfg, x in ((case["first"], x1), (case["second"], x2)):
                if cfg is None:
                    jac = d.linearize(_data(ins, x), compute_all_jacobians=True)
                else:
                    d.add_differentiated_inputs(list(cfg[0]))
                    d.add_differentiated_outputs(list(cfg[1]))
                    jac = d.linearize(_data(ins, x))
            # a cache hit may return MORE blocks than requested (same in analytic mode): only the requested ones are judged
            if any(o not in jac or any(i not in jac[o] for i in ei) for o in eo):
                viols.append(("jacobian-keys", f"got {[(o, sorted(v)) for o, v in jac.items()]}, expected at least outputs {eo} x inputs {ei}"))
            else:
                viols += _compare_blocks(jac, ei, eo, exact, tol, None, ins, outs)
        elif kind == "compute_approx_jac":
            d = _toy(layout, x1)
            ap = DisciplineJacApprox(d, MODE[a], **({} if step is None else {"step": step}))
            d.execute(_data(ins, x1))
            ap.compute_approx_jac(list(outs), list(ins), list(case["first"]))
            d.execute(_data(ins, x2))
            jac = ap.compute_approx_jac(list(outs), list(ins), list(case["second"]))
            viols += _compare_blocks(jac, list(ins), list(outs), exact, tol, list(case["second"]) or None, ins, outs)
        elif kind == "check_jacobian":
            d = _toy(layout, x1, tuple(case["wrong"]) if case["wrong"] else None)
            thr = _threshold(fn, tol)
            _check_jacobian(d, {"wrong": True}, _data(ins, x1), a, thr, step, case["first"], [], [])
            ok, approx = _check_jacobian(d, case, _data(ins, x2), a, thr, step, case["second"], [], [])
            obs.update(result=bool(ok), threshold=thr)
            viols += _judge_check(case, ok, approx, case["second"], [], [], lay, exact, tol, step, thr)
        else:
            raise ValueError(kind)
    except HarnessError:
        raise
    except Exception as e:  # noqa: BLE001
        viols.append(("no-exception", f"{type(e).__name__}: {str(e)[:200]}"))
        obs["raised"] = f"{type(e).__name__}: {str(e)[:200]}"
    return _dedupe(viols), obs


def exec_Y(case):
    from gemseo.utils.derivatives.derivatives_approx import DisciplineJacApprox

    alpha = ALPHABETS[case["alpha"]]
    fn, ins, outs = _lay(case)
    x = _disc_point(fn, "interior", alpha)
    res = []
    for cache in (["NONE"], case["cache"]):
        d = _toy(case["layout"], x, cache=cache)
        d.execute(_data(ins, x))
        runs = d.n_runs
        ap = DisciplineJacApprox(d, MODE[case["mode"]], step=alpha["steps"][1])
        err, steps = ap.auto_set_step(list(outs), list(ins), print_errors=False)
        res.append((np.concatenate([np.atleast_1d(steps[i]) for i in ins]), np.asarray(err, dtype=float), d.n_runs - runs))
    (s0, e0, r0), (s1, e1, r1) = res
    obs = {"steps_without_cache": s0.tolist(), "steps": s1.tolist(), "errors_without_cache": e0.tolist(), "errors": e1.tolist(), "runs_without_cache": r0, "runs": r1}
    viols = []
    if not (np.allclose(s0, s1, rtol=1e-9, atol=0.0) and np.allclose(e0, e1, rtol=1e-9, atol=1e-300)):
        viols.append(("auto_set_step-independent-of-cache", f"cache {case['cache']}: steps {s1.tolist()} errors {e1.tolist()} ({r1} discipline runs) vs without cache: steps {s0.tolist()} errors {e0.tolist()} ({r0} runs)"))
    return viols, obs


def _dedupe(viols):
    seen, out = set(), []
    for inv, msg in viols:  # one message per invariant is enough
        if inv not in seen:
            seen.add(inv)
            out.append((inv, msg))
    return out


def _compare_blocks(jac, names_in, names_out, exact, tol, xidx, ins, outs):
    """Blocks of a {output: {input: array}} Jacobian against the exact derivative; ``xidx`` = columns (of the full
    layout) that were differentiated (None: all): those must be exact, the others exactly zero."""
    viols = []
    for o in names_out:
        for i in names_in:
            r, c = outs[o], ins[i]
            blk = jac[o][i]
            blk = blk.toarray() if hasattr(blk, "toarray") else np.asarray(blk)
            if blk.shape != (len(r), len(c)):
                viols.append(("shape", f"d{o}/d{i} has shape {blk.shape}, expected {(len(r), len(c))}"))
                continue
            blk = np.real(blk)
            for cc, j in enumerate(c):
                if xidx is not None and j not in xidx:
                    if (blk[:, cc] != 0.0).any():
                        viols.append(("unselected-column-not-zero", f"d{o}/d{i}[:, {cc}] = {blk[:, cc].tolist()} for differentiated columns {xidx}"))
                    continue
                e = np.abs(blk[:, cc] - exact[r, j])
                if not np.isfinite(blk[:, cc]).all():
                    viols.append(("finite-jacobian", f"d{o}/d{i}[:, {cc}] = {blk[:, cc].tolist()}, exact {exact[r, j].tolist()}"))
                elif not (e <= tol[r, j]).all():
                    viols.append(("error-bound", f"d{o}/d{i}[:, {cc}] = {blk[:, cc].tolist()}, exact {exact[r, j].tolist()}, |err|={e.tolist()} > bound {tol[r, j].tolist()}"))
    return _dedupe(viols)


# ------------------------------------------------------------------------------------------------------
# structural flags, minimisation of failing cases (attribution to the structural trigger), signatures
# ------------------------------------------------------------------------------------------------------
def _subset_flag(idx, n):
    if len(set(idx)) < len(idx):
        return "selection-with-repeated-index"
    if idx != sorted(idx):
        return "unsorted-selection" if len(idx) < n else "unsorted-full-selection"
    return "explicit-full-set" if len(idx) == n else "strict-subset" if idx == list(range(len(idx))) else "strict-subset-nonleading"


def _ordered_selections(n, thorough, small=False):
    """The default ([]), every sorted non-empty subset, and ORDERED selections: every permutation of every subset
    (n <= 3; n >= 4: every ordered pair and the reverse of every larger subset) plus selections with one repeated
    index ([j, j]; [n-1, 0, n-1]; thorough, n <= 3: every [j, k, j]).  ``small``: only a few representatives of the
    non-sorted ones (used where a case costs a process start-up)."""
    subsets = [list(c) for c in product.nonempty_subsets(list(range(n)))]
    out = [[]] + subsets
    if small:
        return out + [[n - 1, 0], [n - 1, n - 1]] + ([list(range(n))[::-1]] if n > 2 else [])
    for sub in subsets:
        if len(sub) < 2:
            continue
        perms = itertools.permutations(sub) if (n <= 3 or len(sub) == 2) else [tuple(sub[::-1])]
        out += [list(q) for q in perms if list(q) != sub]
    out += [[j, j] for j in range(n)] + [[n - 1, 0, n - 1]]
    if thorough and n <= 3:
        out += [[j, k, j] for j in range(n) for k in range(n) if j != k and [j, k, j] != [n - 1, 0, n - 1]]
    return out


def _sel_flags(sel, names_in, names_out, ins, outs):
    f = []
    if not sel:
        return f
    ni, no = list(names_in) or list(ins), list(names_out) or list(outs)
    _, cols = _flat_cols(sel, ni, ins)
    allc = [j for i in ni for j in ins[i]]
    rows_strict = any(len(_selected(sel, o, len(outs[o]))) < len(outs[o]) for o in no)
    sels = [_selected(sel, k, len((ins if k in ins else outs)[k])) for k in sel if k in ni or k in no]
    if any(len(set(v)) < len(v) for v in sels):
        f.append("indices:repeated-component")
    elif any(v != sorted(v) for v in sels):
        f.append("indices:unsorted-components")
    if cols != allc and set(cols) == set(allc):
        pass
    elif cols != allc:
        strict_vars = [i for i in ni if len(_selected(sel, i, len(ins[i]))) < len(ins[i])]
        where = "" if len(ni) < 2 or len(ins[ni[0]]) < 2 else ":on-first-variable" if strict_vars == ni[:1] else ":on-last-variable" if strict_vars == ni[-1:] else ":on-several-variables"
        f.append(("indices:strict-input-subset" if cols == allc[: len(cols)] else "indices:strict-input-subset-nonleading") + where)
    if rows_strict:
        f.append("indices:strict-output-subset")
    if cols == allc and not rows_strict:
        f.append("indices:all-components")
    return f


def _flags(case):
    f = []
    p = case["part"]
    if p == "A":
        fn = FUNCS[case["fn"]]
        idx = list(case["idx"])
        if idx:
            f.append(_subset_flag(idx, fn.n))
        if case["step"] == "vec":
            f.append("step-vector")
        elif case["step"] == "s2":
            f.append("second-scalar-step")
        if case["via"] == "ctor":
            f.append("step-at-construction")
        if case["ds"] != "none":
            f.append("design-space" if case["ds"] == "phys" else "design-space-normalized")
        if case["point"] != "interior":
            f.append(POINT_FLAG[case["point"]])
        if case["par"]:
            f.append("parallel")
        if case["fn"] != DEFAULT_FN[fn.n]:
            f.append(f"fn={case['fn']}")
        return f
    if p == "K":
        fn = FUNCS[case["fn"]]
        if case["last"] != "none":
            f.append("call-with-function-kwargs")
        for op, kn in case["hist"]:
            f.append(("after-f_gradient" if op == "g" else "after-compute_optimal_step") + ("-without-kwargs" if kn == "none" else "-with-same-kwargs" if kn == case["last"] else "-with-other-kwargs"))
        if case["par"]:
            f.append("parallel")
        if case["stepmode"] != "call":
            f.append("step-from-instance")
        if case["idx"]:
            f.append(_subset_flag(list(case["idx"]), fn.n))
        if case["fn"] != DEFAULT_FN[fn.n]:
            f.append(f"fn={case['fn']}")
        return f
    if p == "H":
        fn = FUNCS[case["fn"]]
        f.append("same-instance-second-call")
        if case["edit"] != "none":
            f.append("bounds-edited:" + case["edit"])
        if case["pos"] != "interior":
            f.append("second-point:" + case["pos"])
        f.append("design-space-normalized" if case["normalize"] else "design-space")
        if case["idx2"]:
            f.append(_subset_flag(list(case["idx2"]), fn.n))
        if case["step"] == "vec":
            f.append("step-vector")
        if case["fn"] != DEFAULT_FN[fn.n]:
            f.append(f"fn={case['fn']}")
        return f
    fn, ins, outs = _lay(case)
    if case.get("layout", "toy33") != "toy33":
        f.append("two-vector-inputs")
    if case.get("cache"):
        c = case["cache"]
        f.append("cache:" + c[0] + ("" if len(c) < 2 or c[1] == 0.0 else ":tolerance-above-step" if c[1] >= 1e-5 else ":tolerance-1e-12"))
    if case["step"] == "vec":
        f.append("step-vector")
    elif case["step"] == "default":
        f.append("default-step")
    if case.get("point", "interior") != "interior":
        f.append(POINT_FLAG[case["point"]])
    if p == "B1":
        f.append("mode-by-" + case["setup"])
        if case["din"] is not None:
            f.append("differentiated-io-subset" if (len(case["din"]), len(case["dout"])) != (2, 2) else "differentiated-io-all")
    elif p == "B3":
        x = list(case["xidx"])
        if x:
            f.append(_subset_flag(x, fn.n))
        if case["par"]:
            f.append("parallel")
    elif p == "B2":
        f += _sel_flags(case["sel"], case["I"], case["O"], ins, outs)
        if case["I"]:
            f.append("input_names-given")
        if case["O"]:
            f.append("output_names-given")
        if case["wrong"]:
            f.append("null-jacobian" if case["wrong"][0] == "*" else "forgotten-block-of-following-variable" if case["wrong"][1] == "zero" else "one-wrong-selected-entry")
    elif p == "B4":
        if case["auto"]:
            f.append("auto_set_step")
        if case["data"] != "empty":
            f.append({"defaults": "input_data-equal-to-defaults", "point2": "input_data-off-defaults", "zero": "input_data-off-defaults:zero-component", "on_ub": "input_data-off-defaults:on-upper-bound", "partial": "input_data-partial-off-defaults"}[case["data"]])
        f += _sel_flags(case["sel"], case["I"], case["O"], ins, outs)
        if case["I"]:
            f.append("input_names-given")
        if case["O"]:
            f.append("output_names-given")
        if case.get("par"):
            f.append("parallel")
        if case["wrong"]:
            f.append("one-wrong-selected-entry")
    elif p == "HB":
        f.append("same-object-second-call:" + case["kind"])
        if case["same_point"]:
            f.append("same-point")
        if case.get("free_point"):
            f.append("non-differentiated-inputs-off-defaults")
        if case["kind"] == "check_jacobian":
            f += _sel_flags(case["second"], [], [], ins, outs)
            if case["first"]:
                f.append("first-call-with-indices")
            if case["wrong"]:
                f.append("one-wrong-selected-entry")
        elif case["kind"] == "compute_approx_jac":
            if case["second"]:
                f.append(_subset_flag(list(case["second"]), fn.n))
            if case["first"]:
                f.append("first-call-with-x_indices")
        else:
            f.append("second-io:" + ("all" if case["second"] is None else "subset"))
            f.append("first-io:" + ("all" if case["first"] is None else "subset"))
    return f


def _wrong_selected(wrong, sel, names_in, names_out, ins, outs):
    o, r, i, c = wrong
    ni, no = list(names_in) or list(ins), list(names_out) or list(outs)
    if r == "zero":
        return o == "*" or (o in no and i in ni)
    return o in no and i in ni and r in _selected(sel, o, len(outs[o])) and c in _selected(sel, i, len(ins[i]))


def _valid(case):
    p = case["part"]
    if p == "A":
        return not (case["approx"] == "CS" and case["step"] == "vec")
    if p == "K":
        # ComplexStep has no compute_optimal_step
        return not (case["approx"] == "CS" and any(op == "o" for op, _ in case["hist"]))
    if p == "H":
        return not (case["approx"] == "CS" and case["step"] == "vec") and case["pos"] in HIST_VALID_POS[case["edit"]]
    if case.get("mode") == "CS" and case["step"] == "vec":
        return False
    _, ins, outs = _lay(case)
    if p == "B4" and case["auto"] and case["mode"] == "CS":
        return False  # oracle boundary: auto_set_step is documented for finite differences; ComplexStep has no compute_optimal_step
    if p in ("B2", "B4") and case["wrong"]:
        return _wrong_selected(case["wrong"], case["sel"], case["I"], case["O"], ins, outs)
    if p == "HB" and case["kind"] == "check_jacobian" and case["wrong"]:
        return _wrong_selected(case["wrong"], case["second"], [], [], ins, outs)
    return True


def _resets(case):
    """Candidate simplifications, tried greedily in this order: (axis, value)."""
    p = case["part"]
    out = []
    if p == "A":
        n = FUNCS[case["fn"]].n
        out += [("par", False), ("via", "call"), ("step", "s1"), ("ds", "none"), ("ds", "phys"), ("point", "interior"), ("fn", DEFAULT_FN[n])]
        out += [("idx", [])] + [("idx", [j]) for j in range(n)] + [("idx", [1, 0]), ("idx", [0, 0])]
    elif p == "K":
        out += [("par", False), ("hist", []), ("stepmode", "call"), ("idx", [])] + ([("last", "c")] if case["last"] not in ("none", "c") else [])
        out += [("hist", case["hist"][k:]) for k in range(1, len(case["hist"]))]
    elif p == "H":
        n = FUNCS[case["fn"]].n
        out += [("step", "s1"), ("normalize", False), ("edit", "none"), ("pos", "interior"), ("fn", DEFAULT_FN[n])]
        out += [("idx2", [])] + [("idx2", [j]) for j in range(n)] + [("idx2", [1, 0])]
    elif p == "B1":
        out += [("cache", None), ("point", "interior"), ("setup", "explicit"), ("din", None), ("layout", "toy33")]
    elif p == "B3":
        n = _lay(case)[0].n
        out += [("cache", None), ("par", False), ("step", "scalar"), ("xidx", [])] + [("xidx", [j]) for j in range(n)] + [("xidx", [1, 0]), ("xidx", [0, 0])]
    elif p == "B2":
        _, ins, outs = _lay(case)
        vi, vo = list(ins)[-1], list(outs)[-1]
        out += [("cache", None), ("wrong", None), ("step", "scalar"), ("I", []), ("O", [])]
        out += [("sel", s) for s in ({}, {vi: 0}, {vi: 1}, {vo: 0}, {vo: 1}, {vi: [1, 0]}, {vi: [1, 1]}, {vo: [1, 0]})]
        out += [("sel", {k: v for k, v in case["sel"].items() if k != drop}) for drop in case["sel"]]
    elif p == "B4":
        out += [*([("par", False)] if case.get("par") else []), ("wrong", None), ("auto", False), ("data", "empty"), *([("data", "point2")] if case["data"] not in ("empty", "defaults", "point2") else []), ("I", []), ("O", []), ("sel", {}), ("layout", "toy33")]
        out += [("sel", {k: v for k, v in case["sel"].items() if k != drop}) for drop in case["sel"]]
    elif p == "HB":
        out += [("cache", None), ("wrong", None), ("step", "scalar"), ("same_point", True)]
        if case["kind"] == "linearize":
            out += [("first", None), ("second", None)]
        elif case["kind"] == "compute_approx_jac":
            out += [("first", []), ("second", [])]
        else:
            out += [("first", {}), ("second", {})]
            out += [("second", {k: v for k, v in case["second"].items() if k != drop}) for drop in case["second"]]
    return out


def _rank(sel):
    """Simplicity order of an index selection: default < leading single < single < anything else."""
    if not sel:
        return 0
    if isinstance(sel, dict):
        v = next(iter(sel.values()))
        if len(sel) == 1 and v in ([1, 0], [0, 0], [1, 1]):
            return 3
        return 4 if len(sel) > 1 or not isinstance(v, int) else 1 if v == 0 else 2
    if len(sel) == 1:
        return 1 if sel[0] == 0 else 2
    return 3 if sel in ([1, 0], [0, 0]) else 4


def _execute(case):
    p = case["part"]
    return exec_A(case) if p == "A" else exec_H(case) if p == "H" else exec_K(case) if p == "K" else exec_B4(case) if p == "B4" else exec_HB(case) if p == "HB" else exec_Y(case) if p == "Y" else exec_B(case)


def _minimize(case, inv):
    cur = dict(case)
    changed = True
    while changed:
        changed = False
        for axis, val in _resets(cur):
            if cur.get(axis) == val:
                continue
            if axis in ("idx", "idx2", "xidx", "sel") and _rank(val) >= _rank(cur[axis]):
                continue
            if cur["part"] == "HB" and axis in ("first", "second") and cur["kind"] != "linearize" and _rank(val) >= _rank(cur[axis]):
                continue
            if axis == "ds" and val == "phys" and cur["ds"] != "norm":
                continue
            trial = {**cur, axis: val}
            if axis == "din":
                trial["dout"] = None
            if not _valid(trial):
                continue
            try:
                v, _ = _execute(trial)
            except Exception:  # noqa: BLE001
                continue
            if any(i == inv for i, _ in v):
                cur = trial
                changed = True
                break
    return cur


_MIN_CACHE: dict = {}
_NONTRIVIAL_RULE = (
    "one case = one configuration of the product; non-trivial when at least one structural axis is off its default "
    "(explicit x_indices, step vector / second step / step at construction, design space, point on/near a bound or with a "
    "zero component, parallel; discipline level: indices given, differentiated subset, step vector, one wrong entry; "
    "histories: every two-call history counts; part K: function kwargs given, an earlier call on the instance, parallel, "
    "step from the instance; part B4: auto_set_step, input_data given)"
)


def _approx_of(case):
    return CLASSNAME[case["approx"] if case["part"] in ("A", "H", "K") else case["mode"]]


LEVELS = {
    "A": "f_gradient",
    "H": "f_gradient, second call on the same approximator",
    "K": "f_gradient(**kwargs of the function), history on one approximator",
    "B4": "Discipline.check_jacobian(input_data, auto_set_step)",
    "B1": "Discipline.linearize",
    "B2": "Discipline.check_jacobian",
    "B3": "DisciplineJacApprox.compute_approx_jac",
    "Y": "DisciplineJacApprox.auto_set_step",
}


def _key(case):
    return tuple(sorted((k, repr(v)) for k, v in case.items()))


def check_case(case, tally):
    viols, obs = _execute(case)
    flags = _flags(case)
    status = "ok" if not viols else "+".join(sorted({i for i, _ in viols}))
    level = LEVELS.get(case["part"]) or f"{'Discipline' if case['kind'] != 'compute_approx_jac' else 'DisciplineJacApprox'}.{case['kind']}, second call on the same object"
    if case["part"] in ("A", "H", "K"):
        outcome = ("" if case["part"] == "A" else case["part"] + ":") + f"{case['approx']}:{status}:{obs.get('order', '-')}:{obs.get('pattern', '-')}"
        if obs.get("below_lower_bound"):
            tally.count("cases_with_evaluations_below_a_lower_bound(not an oracle)")
        tally.count("function_evaluations_logged", int(obs.get("n_calls", 0)))
        if "tightness" in obs and not viols:
            t = obs["tightness"]
            tally.count(f"observed_error/bound:{case['approx']}:{obs.get('order')}:" + (">=0.1" if t >= 0.1 else ">=0.001" if t >= 1e-3 else "<0.001"))
    else:
        outcome = f"{case['part']}{':' + case['kind'] if 'kind' in case else ''}:{case['mode']}{'+auto_set_step' if case.get('auto') else ''}:{status}" + (f":{obs.get('result')}" if "result" in obs else "")
    nontrivial = bool([f for f in flags if not f.startswith("fn=")])
    if "not-judged" in str(obs.get("pattern", "")) + str(obs.get("result", "")):
        tally.count("cases_not_judged(step chosen by gemseo outside the safe range)")
        nontrivial = False
    tally.case(_key(case), nontrivial=nontrivial, outcome=outcome, sample={"case": case, "observed": {k: obs[k] for k in ("jacobian", "n_calls", "pattern", "order", "result") if k in obs}})
    done = set()
    for inv, msg in viols:
        if inv in done:
            continue
        done.add(inv)
        ck = (inv, _approx_of(case), level, tuple(flags))
        if ck not in _MIN_CACHE:
            small = _minimize(case, inv)
            v2, _ = _execute(small)
            m2 = next((m for i, m in v2 if i == inv), msg)
            _MIN_CACHE[ck] = (small, [f for f in _flags(small)], m2)
        small, mflags, m2 = _MIN_CACHE[ck]
        sig = {"invariant": inv, "approximator": _approx_of(case), "level": level, "trigger": "+".join(mflags) or "always"}
        if inv == "auto_set_step-independent-of-cache":  # stable key, should the finding be registered instead of patched
            sig["shape"] = "auto_set_step-evaluates-outside-the-zero-cache-tolerance-context"
        if inv == "no-exception" and small["part"] == "K" and _repeated_o(small):  # stable key, should the finding be registered instead of patched
            sig["shape"] = "compute_optimal_step-with-per-component-step"
        if "non-differentiated-inputs-off-defaults" in mflags:  # stable key for the registered known finding
            sig["shape"] = "non-differentiated-inputs-off-defaults"
        tally.violation(sig, small, f"{inv}: {m2}\n  minimal case={small}\n  structural trigger: {sig['trigger']}")


# ------------------------------------------------------------------------------------------------------
# enumeration
# ------------------------------------------------------------------------------------------------------
def cases_A(thorough, alpha):
    out = []
    for fname in THOROUGH_FUNCS if thorough else QUICK_FUNCS:
        n = FUNCS[fname].n
        axes = {
            "approx": ["FD", "CD", "CS"],
            "point": THOROUGH_POINTS if thorough else QUICK_POINTS,
            "step": ["s1", "s2", "vec"],
            "via": ["call", "ctor"],
            "idx": _ordered_selections(n, thorough),
            "par": [False, True],
            "ds": ["none", "phys", "norm"],
        }
        for c in product.full(axes):
            case = {"part": "A", "fn": fname, **c, "alpha": alpha}
            if c["par"] and not thorough and (c["via"] == "ctor" or c["step"] == "s2"):
                # quick tier: ~60 ms of process start-up per parallel run; how/which scalar step is given does not
                # reach _compute_parallel_grad differently, so these two axes are only crossed with parallel in thorough
                continue
            if c["par"] and not thorough and c["idx"] not in _ordered_selections(n, False, small=True):
                continue  # quick: parallel is crossed with the sorted subsets and a few non-sorted / repeated selections
            if not thorough and (c["via"] == "ctor" or c["step"] == "s2") and (c["idx"] != sorted(set(c["idx"]))):
                continue  # quick: non-sorted / repeated selections are crossed with step in {first scalar, vector} given at call
            if _valid(case):
                out.append(case)
    return out


SEL_ALPHABET = {
    # layout -> variable -> (quick forms, thorough extra forms); None = the variable is absent from ``indices``
    "toy33": {
        "x1": ([None, 0], ["..."]),
        "x2": ([None, 0, 1, [0, 1], [1], "slice:0:1", "...", [1, 0], [1, 1]], ["none", "slice:1:2", [0, 1, 0]]),
        "y1": ([None, 0], []),
        "y2": ([None, 1, [0, 1], [0], [1, 0]], ["slice:0:1", 0, [0, 0]]),
    },
    # strict subsets on the first variable only, the last only, both; ints / lists / slices
    "toy54": {
        "a": ([None, 1, [0, 2], "slice:0:2", [2], [2, 0], [1, 1]], [0, [1, 2], "...", [2, 1, 0], [0, 2, 0]]),
        "b": ([None, 0, [1], "slice:1:2", [1, 0]], [1, "...", [0, 0]]),
        "y": ([None, 1], [[0, 1]]),
        "w": ([None, 0], []),
    },
}
THOROUGH_NAMES_TOY54 = [([], []), (["a", "b"], ["w"]), (["b"], ["y", "w"]), (["a"], ["y"]), (["a", "b"], ["y", "w"])]
QUICK_NAMES = {
    "toy33": [([], []), (["x2"], ["y2"])],
    "toy54": [([], []), (["a", "b"], ["w"]), (["b"], ["y", "w"])],
}


def _sel_product(layout, thorough):
    alpha = SEL_ALPHABET[layout]
    names = list(alpha)
    for combo in itertools.product(*[alpha[k][0] + (alpha[k][1] if thorough else []) for k in names]):
        yield {k: v for k, v in zip(names, combo) if v is not None}


def _wrong_entries(sel, ni, no, ins, outs, every):
    """Entries (output, row, input, column) of the selected sub-Jacobian to be made wrong, one discipline each:
    every selected entry (thorough), or per block its first selected row and first selected column (quick) -
    so that every selected column and every selected row of every block (in particular of the block of the
    variable that FOLLOWS a subsetted one) carries a wrong entry once."""
    out = []
    for o in no:
        rows = _selected(sel, o, len(outs[o]))
        for i in ni:
            cols = _selected(sel, i, len(ins[i]))
            ent = sorted({(r, c) for r in rows for c in cols})
            if not every:
                ent = [(r, c) for r, c in ent if r == rows[0] or c == cols[0]]
            out += [[o, r, i, c] for r, c in ent]
    return out


def cases_B(thorough, alpha):
    out = []
    modes = ["FD", "CD", "CS"]
    for layout, lay in LAYOUTS.items():
        ins, outs, n = lay["ins"], lay["outs"], FUNCS[lay["fn"]].n
        names_in = product.nonempty_subsets(list(ins))
        names_out = product.nonempty_subsets(list(outs))
        # B1 linearize
        for a, setup, pt in itertools.product(modes, ["setter", "explicit"], ["interior", "zero"] + (["on_ub"] if thorough else [])):
            for stp in ["default"] if setup == "setter" else ["scalar"]:
                for din, dout in [(None, None)] + [(list(i), list(o)) for i in names_in for o in names_out]:
                    out.append({"part": "B1", "layout": layout, "mode": a, "setup": setup, "step": stp, "point": pt, "din": din, "dout": dout, "alpha": alpha})
        # B3 compute_approx_jac placement (process-parallel on the small layout; thorough: on both)
        for a, stp, par in itertools.product(modes, ["default", "scalar", "vec"], [False, True]):
            if par and layout != "toy33" and not thorough:
                continue
            for xidx in _ordered_selections(n, thorough, small=par and not thorough):
                c = {"part": "B3", "layout": layout, "mode": a, "step": stp, "xidx": xidx, "par": par, "alpha": alpha}
                if _valid(c):
                    out.append(c)
        # B2 check_jacobian
        for a, stp in itertools.product(modes, ["scalar", "vec"] + (["default"] if thorough else [])):
            for ni, no in itertools.product([[]] + [list(i) for i in names_in], [[]] + [list(o) for o in names_out]):
                if not thorough and ((ni, no) not in QUICK_NAMES[layout] or (stp == "vec" and (ni or no))):
                    continue  # quick: the step vector is crossed with the default names only
                if thorough and layout == "toy54" and (ni, no) not in THOROUGH_NAMES_TOY54:
                    continue
                for sel in _sel_product(layout, thorough):
                    base = {"part": "B2", "layout": layout, "mode": a, "step": stp, "I": ni, "O": no, "sel": sel, "wrong": None, "alpha": alpha}
                    if not _valid(base):
                        continue
                    out.append(base)
                    every = layout == "toy33" or (thorough and a == "FD" and stp == "scalar")
                    for w in _wrong_entries(sel, ni or list(ins), no or list(outs), ins, outs, every):
                        out.append({**base, "wrong": w})
                    if layout == "toy54" and (ni or list(ins))[-1] == "b" and len(ni or list(ins)) > 1:
                        # the whole block of the variable that follows the (possibly subsetted) first one is forgotten
                        out += [{**base, "wrong": [o, "zero", "b", 0]} for o in (no or list(outs))]
    return out


def cases_C(thorough, alpha):
    """The cache axis of the discipline level: cache in {none, SimpleCache, MemoryFullCache} x tolerance in
    {0, 1e-4 (>> every step), 1e-12} x linearize (3 modes, all / subsets of io) x compute_approx_jac (x_indices) x
    check_jacobian (exact Jacobian accepted; one wrong entry, a forgotten block, a NULL Jacobian rejected)."""
    out = []
    for layout, lay in LAYOUTS.items():
        ins, outs, n = lay["ins"], lay["outs"], FUNCS[lay["fn"]].n
        vi = list(ins)[-1]
        for cache, a in itertools.product(CACHES, ["FD", "CD", "CS"]):
            for setup, stp in (("setter", "default"), ("explicit", "scalar")):
                for din, dout in [(None, None), ([vi], list(outs)), (list(ins), [list(outs)[0]])] + ([([list(ins)[0]], [list(outs)[-1]])] if thorough else []):
                    out.append({"part": "B1", "layout": layout, "mode": a, "setup": setup, "step": stp, "point": "interior", "din": din, "dout": dout, "cache": cache, "alpha": alpha})
            for stp in ["scalar", "vec"]:
                for xidx in [[], [n - 1], [n - 1, 0]] + ([[0], [1, n - 1]] if thorough else []):
                    c = {"part": "B3", "layout": layout, "mode": a, "step": stp, "xidx": xidx, "par": False, "cache": cache, "alpha": alpha}
                    if _valid(c):
                        out.append(c)
            for sel in [{}, {vi: 1}] + ([{vi: [1, 0]}, {list(outs)[-1]: 0}] if thorough else []):
                base = {"part": "B2", "layout": layout, "mode": a, "step": "scalar", "I": [], "O": [], "sel": sel, "wrong": None, "cache": cache, "alpha": alpha}
                out.append(base)
                out.append({**base, "wrong": ["*", "zero", "*", 0]})
                out += [{**base, "wrong": w} for w in _wrong_entries(sel, list(ins), list(outs), ins, outs, thorough)[:: 1 if thorough else 3]]
    return out


# compute_optimal_step stores one step per component in ``step`` and cannot be called again with it on the unmodified
# tree (ValueError in compute_best_step; patch notes/fixes/c16_optimal_step_per_component.diff): the histories with two
# compute_optimal_step calls are witnesses of THAT defect and run with ``./check C16 --only KO``; set this to True to make
# them part of the default thorough run once the patch is applied (or the finding registered).
K_REPEATED_OPTIMAL_STEP = True


def _repeated_o(case):
    return sum(op == "o" for op, _ in case["hist"]) > 1


def cases_K(thorough, alpha, repeated=K_REPEATED_OPTIMAL_STEP):
    """Keyword arguments of the function x serial / 2 processes x the three approximators x every history of at most
    one (thorough: two) earlier f_gradient / compute_optimal_step calls on the same instance with keyword arguments
    from the alphabet x where the step of the last call comes from x x_indices."""
    out = []
    kws3 = ["none", "c", "cb"]
    kws = kws3 + (["b", "c1"] if thorough else [])
    for fname in ["cubic3", "expsin3", "disc33"] if thorough else ["cubic3"]:
        n = FUNCS[fname].n
        ops = [[op, k] for op in ("g", "o") for k in kws]
        ops3 = [[op, k] for op in ("g", "o") for k in kws3]
        # thorough: the histories of two earlier calls use the three-kwargs alphabet, on one function, with the default x_indices
        hists = [([], kws)] + [([o], kws) for o in ops] + ([([o1, o2], kws3) for o1 in ops3 for o2 in ops3] if thorough and fname == "cubic3" else [])
        idxs = [[], [n - 1]] + ([[0, n - 1], [n - 1, 0]] if thorough and fname == "cubic3" else [])
        for approx, par, (hist, lasts), stepmode, idx in itertools.product(["FD", "CD", "CS"], [False, True], hists, ["call", "inst"], idxs):
            for last in lasts:
                c = {"part": "K", "fn": fname, "approx": approx, "par": par, "hist": hist, "last": last, "stepmode": stepmode, "idx": idx, "alpha": alpha}
                if (len(hist) == 2 and idx) or (_repeated_o(c) and not repeated):
                    continue
                if _valid(c):
                    out.append(c)
    return out


B4_SELS = {
    "toy33": ([{}, {"x2": 1}, {"x2": [1, 0], "y2": 1}], [{"x1": 0, "x2": "slice:0:1"}, {"y2": [0]}]),
    "toy54": ([{}, {"a": 1}, {"a": [2, 0], "w": 0}, {"b": [1]}], [{"a": "slice:0:2", "b": 0}, {"a": [1, 1]}, {"y": 1}]),
}


def cases_B4(thorough, alpha):
    """Discipline.check_jacobian: auto_set_step x form of input_data x method x names x indices x {exact, one wrong entry}."""
    out = []
    for layout, lay in LAYOUTS.items():
        ins, outs = lay["ins"], lay["outs"]
        names = QUICK_NAMES[layout] if not thorough else [([], []), ([list(ins)[-1]], [list(outs)[-1]]), ([list(ins)[0]], list(outs)), (list(ins), [list(outs)[0]])]
        sels = B4_SELS[layout][0] + (B4_SELS[layout][1] if thorough else [])
        datas = ["empty", "defaults", "point2", "zero", "partial"] + (["on_ub"] if thorough else [])
        for (auto, a), data, (ni, no), sel in itertools.product([(False, "FD"), (True, "FD"), (True, "CD"), (False, "CD"), (False, "CS")], datas, names, sels):
            base = {"part": "B4", "layout": layout, "mode": a, "auto": auto, "data": data, "step": "scalar", "I": ni, "O": no, "sel": sel, "wrong": None, "alpha": alpha}
            if not _valid(base):
                continue
            out.append(base)
            wrongs = _wrong_entries(sel, ni or list(ins), no or list(outs), ins, outs, thorough and layout == "toy33")
            for w in wrongs if thorough else wrongs[:: max(1, len(wrongs) - 1)]:  # quick: the first and the last of them
                out.append({**base, "wrong": w})
            if thorough and auto and layout == "toy33" and not sel:
                out.append({**base, "par": True})
    return out


def cases_Y(alpha):
    """NOT part of the default run (./check C16 --only Y): DisciplineJacApprox.auto_set_step must not depend on the
    discipline's cache - the steps and error estimates equal those obtained with no cache."""
    return [{"part": "Y", "layout": layout, "mode": a, "step": "scalar", "cache": cache, "alpha": alpha} for layout in LAYOUTS for a in ("FD", "CD") for cache in CACHES]


def cases_H(thorough, alpha):
    """Two-call histories on one approximator with an edit of its DesignSpace in between (full product)."""
    out = []
    for fname in ["cubic3", "sq2", "expsin3"] if thorough else ["cubic3"]:
        n = FUNCS[fname].n
        subsets = _ordered_selections(n, False)[1:] if thorough else [[n - 1], [0, n - 1], [n - 1, 0]]
        for approx, normalize, (edit, poss), idx2, step in itertools.product(["FD", "CD", "CS"], [False, True], HIST_EDITS.items(), [[]] + subsets, ["s1", "vec"]):
            for pos in poss + (["interior"] if thorough else []):
                c = {"part": "H", "fn": fname, "approx": approx, "normalize": normalize, "edit": edit, "pos": pos, "idx2": idx2, "step": step, "alpha": alpha}
                if _valid(c):
                    out.append(c)
    return out


def cases_X(alpha):
    """Witnesses of a registered known finding (known_findings.json, shape non-differentiated-inputs-off-defaults) -
    linearize(input_data) in an approximation mode with a strict subset of differentiated inputs evaluates the
    other inputs at the discipline's defaults instead of input_data."""
    base = {"part": "HB", "layout": "toy54", "alpha": alpha, "wrong": None, "kind": "linearize", "step": "scalar", "same_point": False, "free_point": True}
    return [{**base, "mode": a, "first": cfg, "second": cfg} for a in ("FD", "CD", "CS") for cfg in ([["a"], ["y"]], [["b"], ["w"]])]


def cases_HB(thorough, alpha):
    """Two-call histories on one discipline / DisciplineJacApprox (layout toy54)."""
    out = []
    base = {"part": "HB", "layout": "toy54", "alpha": alpha, "wrong": None}
    io_cfgs = [None, [["a"], ["y"]], [["b"], ["w"]], [["a", "b"], ["y"]]]
    x_cfgs = [[], [0], [1, 3], [2, 4], [3], [3, 1]] + ([[0, 1, 2], [3, 4], [4], [4, 4]] if thorough else [])
    sel_cfgs = [{}, {"a": 1}, {"a": [0, 2]}, {"b": 1}, {"a": "slice:0:2", "b": 0}, {"a": 1, "w": 0}, {"a": [2, 0]}]
    for a, same in itertools.product(["FD", "CD", "CS"], [False, True]):
        for first, second in itertools.product(io_cfgs, io_cfgs):
            out.append({**base, "kind": "linearize", "mode": a, "step": "scalar", "same_point": same, "first": first, "second": second})
        for stp, first, second in itertools.product(["scalar", "vec"], x_cfgs, x_cfgs):
            c = {**base, "kind": "compute_approx_jac", "mode": a, "step": stp, "same_point": same, "first": first, "second": second}
            if _valid(c):
                out.append(c)
        lay = LAYOUTS["toy54"]
        for first, second in itertools.product(sel_cfgs if thorough else sel_cfgs[:2], sel_cfgs):
            c = {**base, "kind": "check_jacobian", "mode": a, "step": "scalar", "same_point": same, "first": first, "second": second}
            out.append(c)
            for w in _wrong_entries(second, list(lay["ins"]), list(lay["outs"]), lay["ins"], lay["outs"], thorough):
                out.append({**c, "wrong": w})
    return out


# ------------------------------------------------------------------------------------------------------
# process-parallel cases need workers that may have children: a small non-daemonic twin of mc.core.pmap
# ------------------------------------------------------------------------------------------------------
def _shutdown_gemseo_manager():
    try:
        import gemseo.utils.multiprocessing.manager as mm

        m = mm.__dict__.get("__manager")
        if m is not None:
            m.shutdown()
            mm.__dict__["__manager"] = None
    except Exception:  # noqa: BLE001
        pass


def _run_chunk(fn, chunk):
    t = Tally()
    for case in chunk:
        try:
            fn(case, t)
        except Exception:  # noqa: BLE001 - a harness error is never a silent pass
            t.violation({"invariant": "harness-error", "where": traceback.format_exc().strip().splitlines()[-1][:120]}, case, traceback.format_exc())
    return t


def _nd_worker(fn, my_chunks, q):
    try:
        for ci, chunk in my_chunks:
            q.put((ci, _run_chunk(fn, chunk)))
    finally:
        _shutdown_gemseo_manager()
        q.put(("done", None))


def pmap_nondaemon(fn, cases, tally, jobs, chunk=20, timeout=900):
    all_chunks = list(enumerate(chunks(cases, chunk)))
    if not all_chunks:
        return
    if jobs <= 1:
        for _, c in all_chunks:
            tally.merge(_run_chunk(fn, c))
        _shutdown_gemseo_manager()
        return
    import gemseo.utils.multiprocessing.manager as mm

    assert mm.__dict__.get("__manager") is None, "the gemseo manager must not exist before forking"
    ctxm = multiprocessing.get_context("fork")
    q = ctxm.Queue()
    jobs = min(jobs, len(all_chunks))
    procs = [ctxm.Process(target=_nd_worker, args=(fn, all_chunks[w::jobs], q)) for w in range(jobs)]
    for p in procs:
        p.daemon = False
        p.start()
    results, done, deadline = {}, 0, time.time() + timeout
    while done < jobs:
        try:
            ci, t = q.get(timeout=5)
        except _queue.Empty:
            if time.time() > deadline or not any(p.is_alive() for p in procs):
                break
            continue
        deadline = time.time() + timeout  # the deadline bounds the time WITHOUT PROGRESS (a hang), not the total, which depends on the machine load
        if ci == "done":
            done += 1
        else:
            results[ci] = t
    for p in procs:
        p.join(timeout=10)
        if p.is_alive():
            p.terminate()
    for ci in sorted(results):
        tally.merge(results[ci])
    missing = [ci for ci, _ in all_chunks if ci not in results]
    if missing:
        tally.violation({"invariant": "harness-timeout"}, all_chunks[missing[0]][1][0], f"{len(missing)} chunks of process-parallel cases did not report: no progress for {timeout}s")


def _uses_processes(case):
    # MemoryFullCache keeps its data in a multiprocessing manager (a server process): such cases run on the workers
    # that shut the manager down when they finish
    return bool(case.get("par")) or (case.get("cache") or [""])[0] == "MEMORY_FULL" or case["part"] == "Y"


def run(ctx):
    global _SCRATCH
    _SCRATCH = ctx.scratch
    alpha = ctx.seed % len(ALPHABETS)
    only = (getattr(ctx, "only", None) or "").upper()
    cases = []
    if not only or only == "A":
        cases += cases_A(ctx.thorough, alpha)
    if not only or only == "H":
        cases += cases_H(ctx.thorough, alpha)
    if not only or only == "K":
        cases += cases_K(ctx.thorough, alpha)
    if only == "KO":  # witnesses of the compute_optimal_step defect (see K_REPEATED_OPTIMAL_STEP), in any tier
        cases += [c for c in cases_K(True, alpha, repeated=True) if _repeated_o(c)]
    if not only or only == "HB":
        cases += cases_HB(ctx.thorough, alpha)
    if not only or only == "X":  # witnesses of the registered known finding (non-differentiated inputs off their defaults)
        cases += cases_X(alpha)
    if not only or only == "C":
        cases += cases_C(ctx.thorough, alpha)
    if not only or only == "Y":
        cases += cases_Y(alpha)
    if not only or (only.startswith("B")):
        cases += [c for c in cases_B(ctx.thorough, alpha) + cases_B4(ctx.thorough, alpha) if not only or only == "B" or c["part"] == only]
    cases.sort(key=lambda c: len(_flags(c)))  # simplest first (stable)
    serial = [c for c in cases if not _uses_processes(c)]
    par = [c for c in cases if _uses_processes(c)]
    t0 = time.time()
    pmap(check_case, serial, ctx.tally, jobs=ctx.jobs, chunk=100, timeout=120)
    t1 = time.time()
    pmap_nondaemon(check_case, par, ctx.tally, jobs=ctx.jobs, chunk=20)
    t2 = time.time()
    per_part = {}
    for c in cases:
        per_part[c["part"]] = per_part.get(c["part"], 0) + 1
    ctx.tally.notes["cases_per_part"] = per_part
    ctx.tally.notes["serial_cases"] = len(serial)
    ctx.tally.notes["process_parallel_cases"] = len(par)
    ctx.tally.notes["wall_serial_s"] = round(t1 - t0, 1)
    ctx.tally.notes["wall_process_parallel_s"] = round(t2 - t1, 1)
    return {
        "level": LEVEL,
        "rule": _NONTRIVIAL_RULE,
        "exhaustive": True,
        "bounds": {
            "functions": THOROUGH_FUNCS if ctx.thorough else QUICK_FUNCS,
            "points": THOROUGH_POINTS if ctx.thorough else QUICK_POINTS,
            "x_indices": "default + every non-empty subset + every permutation of it (n >= 4: ordered pairs, reversed subsets) + selections with one repeated index (n = 2, 3" + (", 4)" if ctx.thorough else "; quick: non-sorted/repeated selections crossed with step in {first scalar, vector} at call, a few of them with parallel)"),
            "cache_axis": "cache in {none, SimpleCache, MemoryFullCache} x tolerance in {0, 1e-4, 1e-12} x linearize / compute_approx_jac / check_jacobian on both harness disciplines",
            "steps": "2 scalars + 1 per-component vector (length of x); ComplexStep: 2 scalars",
            "parallel": "off / 2 processes" + ("" if ctx.thorough else " (quick: parallel is crossed with step in {first scalar, vector} given at call; thorough: full product)"),
            "design_space": ["none", "bounded, normalize=False", "bounded, normalize=True"],
            "discipline_level": "linearize: 3 modes x 2 set-ups x points x (all | every differentiated input/output subset); "
            "compute_approx_jac: 3 modes x steps x every x_indices subset x serial/processes; "
            "check_jacobian: 2 harness disciplines (x1:1,x2:2 -> y1:1,y2:2 and a:3,b:2 -> y:2,w:2) x 3 modes x steps x input_names/output_names choices x every enumerated indices mapping "
            "(ints/lists/slices/..., strict subsets on the first variable only, the last only, both) x (exact Jacobian: verdict + the reference Jacobian saved by the call, block by block; "
            "one wrong entry per selected entry (small discipline) or per block first selected row and column (two-vector discipline)); "
            "histories: 2 calls on one approximator with the DesignSpace edited in between (9 edits x second-point positions x normalize x x_indices x step), "
            "2 calls on one discipline / DisciplineJacApprox (linearize, compute_approx_jac, check_jacobian with changing io / x_indices / indices / point)",
            "function_kwargs": "kwargs in {none, {c}, {c, body}" + (", {body}, {c: default}}" if ctx.thorough else "}") + " x 3 approximators x serial / 2 processes x histories of <= " + ("2" if ctx.thorough else "1")
            + " earlier f_gradient / compute_optimal_step calls with kwargs on the same instance x step at call / from the instance x x_indices",
            "check_jacobian_point_axis": "auto_set_step off/on (FirstOrderFD, CenteredDifferences; off also ComplexStep) x input_data {absent, defaults, interior point, zero components, partial"
            + (", on upper bounds}" if ctx.thorough else "}") + " x names x indices x {exact, one wrong selected entry}" + (" (+ 2 processes on the small discipline)" if ctx.thorough else ""),
            "value_alphabet": alpha,
        },
        "assumptions": [
            "structural axes are exhaustive; values (steps, points, test functions) come from one finite alphabet of 3 rotated by VERIF_SEED - not a proof over the reals",
            "tolerances are Taylor remainders from term-wise derivative bounds plus a rounding budget of 32 ulp per evaluation (module docstring); none is tuned",
            "centered differences within one step of a bound of a supplied design space are held to the one-sided first-order bound",
            "only upper bounds are protected by the statement; evaluations below lower bounds are counted, not flagged",
            "ComplexStep is enumerated with scalar steps only; step vectors have the length of x",
            "auto_set_step under a tolerant cache is a separate, patched finding (./check C16 --only Y), outside the default run",
            "parallel means processes (thread workers must be distinct objects by CallableParallelExecution's documented contract); the evaluation log is in fork-shared memory",
            "check_jacobian(auto_set_step=True) is judged for the steps auto_set_step returns on a twin discipline, when they lie in [1e-10, 1e-2); not with ComplexStep (no compute_optimal_step)",
            "Jacobians wrong in a not-selected entry are outside the oracle",
            "function keyword arguments change the value of the function (output multiplier, choice of the body); F(.; kwargs) is a test function with its own derived bounds",
        ],
    }


def replay(case, ctx):
    global _SCRATCH
    _SCRATCH = ctx.scratch
    viols, obs = _execute(case)
    return {"case": case, "flags": _flags(case), "violations": [{"invariant": i, "message": m} for i, m in viols], **obs}
