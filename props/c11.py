"""C11 - saved histories, design spaces, problems and caches reload identically.

Part H (engine E1, ``mc.explore.bfs``): explicit-state BFS over store/export histories of a real
``Database`` and its HDF file.  A state is the history; every expanded state (database *and* file) is
rebuilt by replay inside ``ctx.scratch`` (one file per state object, removed when the object dies); its
successors start from a copy of it (deep copy of the database + copy of the file; ``VERIF_C11_REPLAY_ONLY=1``
rebuilds every successor by replay instead - both modes give the same states/transitions).  After every
export the file is reloaded with ``Database.from_hdf`` and compared with the in-memory database, and with
the reload of one fresh ``append=False`` export of the same content.

Part R (engine E2, ``mc.product``): history-free round trips of ``DesignSpace`` (HDF and text),
``OptimizationProblem`` (HDF) and ``HDF5Cache`` (re-instantiated on the same file/node).

Oracle boundaries (what the statement leaves open is either not enumerated or accepted in every reading):
  * the order of the output names *inside* one entry is not compared (entries are mappings; the format
    documents "sorted within each export, exports concatenated");
  * a scalar must come back as a float64 scalar, list/array values as float64 arrays of the same shape
    (the promotions of the format); points must come back with the same dtype kind and bytes;
  * only *new* names are stored at old points (replacing the value of an already exported name is not
    covered by the statement of the append mode); exports go to one file only;
  * text format: the reloaded number must be the number whose 16-significant-digit decimal rendering
    was written, i.e. |reloaded - original| <= half a unit of the 16th significant digit of the original
    (+ one ulp for the correctly rounded decimal -> binary conversion);
  * the dtype of integer variables' current values is not demanded (``DesignSpace.__eq__`` is value based).
"""
from __future__ import annotations

import copy
import itertools
import math
import os
import shutil

import numpy as np
from numpy import inf

from mc import explore, product
from mc.core import pmap
from mc.explore import Rejected

LEVEL = "model_checking"
MH = "_HDFDatabase__"
MD = "_Database__"

# ------------------------------------------------------------------------------------------------
# Part H: alphabet
# ------------------------------------------------------------------------------------------------
# Output names: arrival order (zs, mv, a1, bm) differs from sort order (a1, bm, mv, zs).
NAMES = ["zs", "mv", "a1", "bm"]
# value kinds: s = scalar float, a = size-1 array, v = vector, m = matrix, l = list
# One kind table per *arrival position of the point*: every kind occurs at an early and at a late sort
# position, scalars and arrays interleave in the sorted order.
KIND_TABLES = [
    [{"zs": "s", "mv": "v", "a1": "a", "bm": "m"}, {"zs": "v", "mv": "l", "a1": "s", "bm": "s"}, {"zs": "l", "mv": "s", "a1": "m", "bm": "a"}],
    [{"zs": "m", "mv": "s", "a1": "s", "bm": "v"}, {"zs": "s", "mv": "a", "a1": "l", "bm": "s"}, {"zs": "a", "mv": "m", "a1": "v", "bm": "l"}],
    [{"zs": "s", "mv": "s", "a1": "l", "bm": "a"}, {"zs": "a", "mv": "m", "a1": "s", "bm": "v"}, {"zs": "v", "mv": "l", "a1": "m", "bm": "s"}],
]
# point values and dtypes, by arrival position (equally valid alphabets rotated by VERIF_SEED)
POINT_TABLES = [
    [("f", [1.0, 2.0]), ("f", [3.5, -4.0]), ("i", [5, 6])],
    [("i", [1, -2]), ("f", [0.1, 0.2]), ("f", [1e-3, 7.0])],
    [("f", [0.0, -0.0]), ("i", [3, 4]), ("f", [2.5, 1e10])],
]
# subsets of names stored together with a new point (simplest first; () = pre-seeded empty entry)
NEW_MENUS_FULL = [(), ("zs",), ("mv", "a1"), ("zs", "bm", "a1"), ("bm",), ("zs", "mv", "a1", "bm")]
NEW_MENUS_QUICK = [(), ("zs",), ("mv", "a1"), ("zs", "bm", "a1")]
NODES = ["", "grp/sub"]
N_POINTS = 3

_CFG = {"kinds": KIND_TABLES[0], "points": POINT_TABLES[0], "seed": 0}


def _value(i: int, name: str):
    """A fresh value object of the kind of (point position, name); values are distinct per (i, name)."""
    kind = _CFG["kinds"][i][name]
    base = 10.0 * (i + 1) + NAMES.index(name) + 0.125 * (_CFG["seed"] + 1)
    if kind == "s":
        return float(base)
    if kind == "a":
        return np.array([base])
    if kind == "v":
        return np.array([base, -base, base / 3.0])
    if kind == "m":
        return np.array([[base, 2.0], [-3.0, base / 7.0]])
    if kind == "l":
        return [int(base), 8]
    raise ValueError(kind)


def _point(i: int) -> np.ndarray:
    kind, vals = _CFG["points"][i]
    return np.array(vals, dtype=np.int64 if kind == "i" else np.float64)


# ------------------------------------------------------------------------------------------------
# comparison of databases
# ------------------------------------------------------------------------------------------------
def _same_value(orig, back) -> str | None:
    """``back`` is the reloaded value of ``orig`` up to the promotions of the format."""
    if isinstance(orig, (list, np.ndarray)):
        o = np.asarray(orig, dtype=float)
        if not isinstance(back, np.ndarray):
            return f"array-like {orig!r} reloaded as {type(back).__name__} {back!r}"
        if back.dtype != np.float64 or back.shape != o.shape or not np.array_equal(o, back):
            return f"{orig!r} reloaded as {back!r} (dtype {back.dtype}, shape {back.shape})"
        return None
    if isinstance(back, (list, np.ndarray)) and np.ndim(back) > 0:
        return f"scalar {orig!r} reloaded as array {back!r}"
    if float(orig) != float(back):
        return f"scalar {orig!r} reloaded as {back!r}"
    return None


def compare_db(db, back, strict_types: bool = False) -> tuple[str, str] | None:
    """First difference between the database ``db`` and ``back`` as (invariant id, message), else None."""
    k1 = [x.wrapped_array for x in db]
    k2 = [x.wrapped_array for x in back]
    if len(k1) != len(k2):
        return "reload-points", f"{len(k1)} points in memory, {len(k2)} reloaded: {k1} vs {k2}"
    for j, (a, b) in enumerate(zip(k1, k2)):
        if a.dtype.kind != b.dtype.kind or a.shape != b.shape or not np.array_equal(a, b):
            return "reload-points", f"point #{j}: {a!r} ({a.dtype}) reloaded as {b!r} ({b.dtype}); order {k1} vs {k2}"
    if list(db.keys()) != list(back.keys()):
        return "reload-points", f"keys differ as hashable arrays: {k1} vs {k2}"
    for j, (x1, x2) in enumerate(zip(db, back)):
        v1, v2 = db[x1], back[x2]
        if set(v1) != set(v2):
            return "reload-names", f"point #{j} {x1}: names {sorted(v1)} in memory, {sorted(v2)} reloaded"
        for n in v1:
            msg = _same_value(v1[n], v2[n])
            if msg is None and strict_types and (type(v1[n]) is not type(v2[n])):
                msg = f"types differ {type(v1[n]).__name__} vs {type(v2[n]).__name__}"
            if msg:
                return "reload-value", f"point #{j} {x1}, output {n!r}: {msg}"
    return None


def _file_digest(path: str) -> tuple:
    """The whole tree of the file: (path, dtype, shape, bytes) of every dataset, every group name."""
    import h5py

    if not os.path.exists(path):
        return ("absent",)
    out = []

    def visit(name, obj):
        if isinstance(obj, h5py.Dataset):
            v = obj[()]
            if obj.dtype.kind == "O":
                v = repr(np.asarray(v).tolist()).encode()
            else:
                v = np.asarray(v).tobytes()
            out.append((name, str(obj.dtype), obj.shape, v))
        else:
            out.append((name, "group"))

    with h5py.File(path, "r") as f:
        f.visititems(visit)
    return tuple(sorted(out, key=lambda t: t[0]))


# ------------------------------------------------------------------------------------------------
# Part H: the explored system
# ------------------------------------------------------------------------------------------------
_COUNTER = itertools.count()


class Sys:
    """A real Database + its HDF file + what the last export observed."""

    def __init__(self, scratch: str, node: str):
        from gemseo.algos.database import Database

        self.db = Database()
        self.node = node
        self.path = os.path.join(scratch, f"h_{os.getpid()}_{next(_COUNTER)}.h5")
        self.scratch = scratch
        self.stored = 0  # number of points introduced (points arrive in index order)
        self.exported = False
        self.findings: list[tuple[str, str]] = []  # violations observed by the last operation
        self.last_value_kind = "-"
        self.digest = None  # digest of the file tree, recomputed after every export

    def close(self):
        for p in (self.path, self.path + ".fresh"):
            try:
                os.remove(p)
            except OSError:
                pass

    def __del__(self):
        self.close()


def _kind_class(kinds: list) -> str:
    """Shape class of the values of the last store: nothing / scalar / array(<kind>) / scalar+array."""
    if not kinds:
        return "nothing"
    sc = [k for k in kinds if k == "s"]
    ar = sorted({k for k in kinds if k != "s"})
    if sc and ar:
        return "scalar+array"
    return "scalar" if sc else "array:" + "".join(ar) if len(ar) == 1 else "arrays"


def _apply(s: Sys, op: list, oracle: bool = True):
    """Perform one operation on the real database/file; with ``oracle`` the export is followed by the reloads."""
    from gemseo.algos.database import Database

    s.findings = []
    k = op[0]
    if k == "new":
        i = s.stored
        if i >= N_POINTS or op[1] != i:
            raise Rejected("point not next")
        names = list(op[2])
        s.db.store(_point(i), {n: _value(i, n) for n in names})
        s.stored += 1
        s.last_value_kind = _kind_class([_CFG["kinds"][i][n] for n in names])
        return None
    if k == "add":
        i, n = op[1], op[2]
        if i >= s.stored or n in s.db[_point(i)]:
            raise Rejected("not enabled")
        s.db.store(_point(i), {n: _value(i, n)})
        s.last_value_kind = _kind_class([_CFG["kinds"][i][n]])
        return None
    if k in ("exp_a", "exp_w"):
        s.digest = None
        try:
            s.db.to_hdf(s.path, append=(k == "exp_a"), hdf_node_path=s.node)
        except Exception as e:
            s.findings.append(("export-raises", f"to_hdf(append={k == 'exp_a'}) raised {type(e).__name__}: {str(e)[:200]}"))
            return "raised"
        s.exported = True
        if not oracle:
            return None
        try:
            back = Database.from_hdf(s.path, hdf_node_path=s.node, log=False)
        except Exception as e:
            s.findings.append(("reload-raises", f"from_hdf raised {type(e).__name__}: {str(e)[:200]}"))
            return "reload-raised"
        d = compare_db(s.db, back)
        if d:
            s.findings.append(d)
        # the incrementally written file versus one fresh full export of the same content
        fresh = Database()
        for x, outs in s.db.items():
            fresh.store(np.array(x.wrapped_array), dict(outs))
        fpath = s.path + ".fresh"
        fresh.to_hdf(fpath, append=False, hdf_node_path=s.node)
        back2 = Database.from_hdf(fpath, hdf_node_path=s.node, log=False)
        d2 = compare_db(back2, back, strict_types=True)
        os.remove(fpath)
        if d2:
            s.findings.append(("incremental-vs-single-export", f"[{d2[0]}] single export reloads / incremental file reloads: {d2[1]}"))
        else:
            # the input space written with the database must also agree
            if len(s.db) and back.input_space != s.db.input_space:
                s.findings.append(("reload-input-space", f"{back.input_space!r} vs {s.db.input_space!r}"))
        n_sc = sum(1 for v in back.values() for w in v.values() if not isinstance(w, np.ndarray))
        n_ar = sum(1 for v in back.values() for w in v.values() if isinstance(w, np.ndarray))
        return f"p{len(back)}s{min(n_sc, 3)}a{min(n_ar, 3)}"
    raise ValueError(op)


class Spec:
    def __init__(self, scratch: str, cfg: dict, new_menus: list, nodes: list, nested_menus: list | None = None, use_clone: bool = True):
        if not use_clone:  # pure replay: every successor is rebuilt from scratch (VERIF_C11_REPLAY_ONLY=1)
            self.clone = None
        self.scratch = scratch
        self.cfg = cfg
        self.new_menus = new_menus
        self.nested_menus = nested_menus if nested_menus is not None else new_menus
        self.nodes = nodes
        _CFG.update(cfg)

    def starts(self):
        return [["start", node] for node in self.nodes]

    def build(self, hist):
        _CFG.update(self.cfg)
        s = Sys(self.scratch, hist[0][1])
        last = len(hist) - 1
        for j, op in enumerate(hist[1:], 1):
            try:
                # the reload oracle already ran on every prefix when the prefix was the explored history
                _apply(s, op, oracle=(j == last))
            except Rejected:
                pass
        s.digest = _file_digest(s.path)  # inherited by the copies until their next export
        return s

    def enabled(self, s, hist):
        out = []
        menus = self.new_menus if s.node == "" else self.nested_menus
        if s.stored < N_POINTS:
            out += [["new", s.stored, list(m)] for m in menus]
        for i in range(s.stored):
            have = s.db[_point(i)]
            out += [["add", i, n] for n in NAMES if n not in have]
        out += [["exp_a"], ["exp_w"]]
        return out

    def apply(self, s, op):
        return _apply(s, op)

    def check(self, s, hist):
        last = hist[-1][0]
        return [
            ({"invariant": inv, "op": last, "value_kind": s.last_value_kind}, f"{inv}: {msg}\n  history={hist}")
            for inv, msg in s.findings
        ]

    def canon(self, s):
        def val(v):
            a = np.asarray(v)
            return (type(v).__name__, a.dtype.str, a.shape, a.tobytes())

        content = tuple(
            (x.wrapped_array.dtype.str, x.wrapped_array.tobytes(), tuple((n, val(v)) for n, v in outs.items()))
            for x, outs in s.db.items()
        )
        pending = s.db.__dict__[MD + "hdf_database"].__dict__[MH + "pending_arrays"]
        pend = tuple((h, a.wrapped_array.dtype.str, a.wrapped_array.tobytes()) for h, a in pending.items())
        if s.digest is None:
            s.digest = _file_digest(s.path)
        return (s.node, content, pend, s.digest)

    def clone(self, s):
        """Deep copy of the database (the pending arrays stay the key objects of the copy) + copy of the file.

        Every expanded state itself is rebuilt by replay (``build``); only its successors start from a copy.
        """
        t = Sys.__new__(Sys)
        t.db = copy.deepcopy(s.db)
        t.node, t.scratch, t.stored, t.exported = s.node, s.scratch, s.stored, s.exported
        t.path = os.path.join(s.scratch, f"h_{os.getpid()}_{next(_COUNTER)}.h5")
        if os.path.exists(s.path):
            shutil.copyfile(s.path, t.path)
        t.findings, t.last_value_kind, t.digest = list(s.findings), s.last_value_kind, s.digest
        return t

    def nontrivial(self, hist):
        # at least two exports, the last one in append mode, with a store in between
        kinds = [op[0] for op in hist[1:]]
        ex = [j for j, k in enumerate(kinds) if k.startswith("exp")]
        return len(ex) >= 2 and kinds[ex[-1]] == "exp_a" and any(k in ("new", "add") for k in kinds[ex[-2] + 1 : ex[-1]])


def _cfg(ctx) -> dict:
    return {"kinds": ctx.pick(KIND_TABLES), "points": ctx.pick(POINT_TABLES), "seed": ctx.seed % 3}


def run_h(ctx) -> dict:
    depth = 6 if ctx.thorough else 5
    menus = NEW_MENUS_FULL if ctx.thorough else NEW_MENUS_QUICK
    nested = menus if ctx.thorough else NEW_MENUS_QUICK[:3]
    replay_only = os.environ.get("VERIF_C11_REPLAY_ONLY") == "1"
    spec = Spec(ctx.scratch, _cfg(ctx), menus, NODES, nested, use_clone=not replay_only)
    info = explore.bfs(spec, depth, ctx.tally, jobs=ctx.jobs)
    return {"depth": depth, "successors_built_by": "replay" if replay_only else "copy of the replayed parent (database deep copy + file copy)", "new_menus_root": [list(m) for m in menus], "new_menus_nested": [list(m) for m in nested], **info}


# ------------------------------------------------------------------------------------------------
# Part R1: DesignSpace <-> HDF / text
# ------------------------------------------------------------------------------------------------
_SCRATCH = None
_SEED = 0
NAME_TABLES = [["x", "yy", "x_1"], ["Long_name_2", "y[1]", "z"], ["ab", "a", "abc"]]
# numbers that need all 17 significant digits, tiny / huge magnitudes; lb < 0 < value < 0.61 < ub
F_LB = [-1.0 / 3.0, -1e-300, -123456789.12345679, -0.1]
F_UB = [2.0 / 3.0, 1e22 / 7.0, 5.300000000000001, 1.0000033333333334]
F_VAL = [0.1 + 0.2, 1.0 / 3.0, 1e-7 / 3.0, 0.5, 0.6000000000000001]
I_LB = [-3, 0, -(2**40)]
I_UB = [7, 2**40 + 1, 1]
I_VAL = [1, 0]
VAR_AXES = {"size": [1, 2, 3], "type": ["float", "integer"], "lb": ["finite", "-inf", "mixed"], "ub": ["finite", "inf", "mixed", "eq"], "value": ["set", "missing"]}
FORMATS = ["hdf", "hdf-nested", "csv"]


def _var_arrays(pos: int, v: dict):
    size, tp = v["size"], v["type"]
    integer = tp == "integer"
    lbs, ubs, vals = (I_LB, I_UB, I_VAL) if integer else (F_LB, F_UB, F_VAL)
    k0 = pos + _SEED
    lb = [lbs[(k0 + c) % len(lbs)] for c in range(size)]
    ub = [ubs[(k0 + 2 * c) % len(ubs)] for c in range(size)]
    val = [vals[(k0 + c) % len(vals)] for c in range(size)]
    if v["lb"] == "-inf":
        lb = [-inf] * size
    elif v["lb"] == "mixed":
        lb[0] = -inf
    if v["ub"] == "inf":
        ub = [inf] * size
    elif v["ub"] == "mixed":
        ub[-1] = inf
    elif v["ub"] == "eq":  # fixed components wherever the lower bound is finite
        for c in range(size):
            if lb[c] != -inf:
                ub[c] = lb[c]
                val[c] = lb[c]
    finite = all(map(math.isfinite, lb + ub))
    dt = np.int64 if integer and finite else np.float64
    lb, ub = np.array(lb, dtype=dt), np.array(ub, dtype=dt)
    value = None if v["value"] == "missing" else np.array(val, dtype=np.int64 if integer else np.float64)
    return lb, ub, value


def _make_space(case: dict):
    from gemseo.algos.design_space import DesignSpace

    names = NAME_TABLES[_SEED % len(NAME_TABLES)]
    ds = DesignSpace()
    for pos, v in enumerate(case["vars"]):
        lb, ub, value = _var_arrays(pos, v)
        ds.add_variable(names[pos], v["size"], v["type"], lb, ub, value)
    return ds


def _text_close(v: float, r: float) -> bool:
    """``r`` is the binary number nearest to the 16-significant-digit decimal rendering of ``v``.

    |decimal - v| <= half a unit of the 16th significant digit of v; |r - decimal| <= ulp(r)/2.
    """
    v, r = float(v), float(r)
    if v == r or (math.isnan(v) and math.isnan(r)):
        return True
    if not (math.isfinite(v) and math.isfinite(r)) or v == 0.0:
        return False
    e = math.floor(math.log10(abs(v)))
    return abs(r - v) <= 0.5 * 10.0 ** (e - 15) + 0.5 * float(np.spacing(abs(r)))


def compare_space(ds, back, exact: bool) -> list[tuple[str, str, str]]:
    """(invariant, value kind, message) for every difference between a design space and its reload."""
    bad = []
    if list(ds.variable_names) != list(back.variable_names):
        return [("space-names", "names", f"{ds.variable_names} reloaded as {back.variable_names}")]
    for n in ds.variable_names:
        a, b = ds._variables[n], back._variables[n]
        kind = f"{a.type}"
        if a.size != b.size:
            bad.append(("space-size", kind, f"{n}: size {a.size} reloaded as {b.size}"))
            continue
        if str(a.type) != str(b.type):
            bad.append(("space-type", kind, f"{n}: type {a.type} reloaded as {b.type}"))
        for fld in ("lower_bound", "upper_bound"):
            x, y = np.asarray(getattr(a, fld)), np.asarray(getattr(b, fld))
            bk = kind + ("/inf" if not np.all(np.isfinite(x)) else "")
            if exact:
                ok = x.shape == y.shape and np.array_equal(x, y) and x.dtype.kind == y.dtype.kind
            else:
                ok = x.shape == y.shape and all(_text_close(p, q) for p, q in zip(x, y))
            if not ok:
                bad.append((f"space-{fld}", bk, f"{n}: {fld} {x.tolist()!r} ({x.dtype}) reloaded as {y.tolist()!r} ({y.dtype})"))
        x, y = ds._current_value.get(n), back._current_value.get(n)
        if (x is None) != (y is None):
            bad.append(("space-value-presence", kind, f"{n}: current value {x!r} reloaded as {y!r}"))
        elif x is not None:
            x, y = np.asarray(x), np.asarray(y)
            if exact:
                ok = x.shape == y.shape and np.array_equal(x, y)
            else:
                ok = x.shape == y.shape and all(_text_close(p, q) for p, q in zip(x, y))
            if not ok:
                bad.append(("space-value", kind, f"{n}: current value {x.tolist()!r} reloaded as {y.tolist()!r}"))
    if exact and not bad and not (ds == back and back == ds):
        bad.append(("space-eq", "DesignSpace.__eq__", f"field-wise identical but == is False:\n{ds!r}\n{back!r}"))
    return bad


def _r1_observe(case: dict) -> tuple[list, str]:
    from gemseo.algos.design_space import DesignSpace

    ds = _make_space(case)
    fmt = case["fmt"]
    path = os.path.join(_SCRATCH, f"ds_{os.getpid()}_{next(_COUNTER)}" + (".csv" if fmt == "csv" else ".h5"))
    try:
        try:
            if fmt in ("csv", "hdf"):  # through the suffix / content dispatch of to_file / from_file
                ds.to_file(path)
                back = DesignSpace.from_file(path)
            else:
                ds.to_hdf(path, hdf_node_path="grp/sub")
                back = DesignSpace.from_hdf(path, "grp/sub")
        except Exception as e:
            return [("space-roundtrip-raises", type(e).__name__, f"{type(e).__name__}: {str(e)[:300]}")], "raised"
        bad = compare_space(ds, back, exact=fmt != "csv")
    finally:
        if os.path.exists(path):
            os.remove(path)
    n_inf = sum(1 for n in ds.variable_names for b in (ds.get_lower_bound(n), ds.get_upper_bound(n)) if not np.all(np.isfinite(b)))
    n_none = sum(1 for n in ds.variable_names if ds._current_value.get(n) is None)
    return bad, f"{fmt}:inf{min(n_inf, 2)}:none{min(n_none, 2)}:int{min(sum(v['type'] == 'integer' for v in case['vars']), 2)}"


def _r1_case(case, tally):
    bad, outcome = _r1_observe(case)
    nontrivial = any(v["lb"] != "finite" or v["ub"] != "finite" or v["value"] == "missing" or v["type"] == "integer" or v["size"] > 1 for v in case["vars"])
    tally.case(["R1", case], nontrivial=nontrivial, outcome="space:" + outcome, sample=case if nontrivial else None)
    op = "design_space." + ("csv" if case["fmt"] == "csv" else "hdf")
    for inv, kind, msg in bad:
        tally.violation({"invariant": inv, "op": op, "value_kind": kind}, {"part": "R1", **case}, f"{inv}: {msg}\n  case={case}")


def _r1_cases(thorough: bool):
    seen = set()
    out = []

    def add(vars_, fmt):
        vars_ = [dict(v, lb="-inf" if v["size"] == 1 and v["lb"] == "mixed" else v["lb"], ub="inf" if v["size"] == 1 and v["ub"] == "mixed" else v["ub"]) for v in vars_]
        key = repr((vars_, fmt))
        if key not in seen:
            seen.add(key)
            out.append({"vars": vars_, "fmt": fmt})

    # (a) every one-variable space x every format
    for fmt in FORMATS:
        for v in product.full(VAR_AXES):
            add([v], fmt)
    # (b) spaces of 2-3 variables: every assignment with at most k deviations from (size 1, float, finite, set)
    axes = {"fmt": FORMATS, "n": [3, 2]}
    for j in range(3):
        for a, vals in VAR_AXES.items():
            axes[f"{a}{j}"] = vals
    for c in product.deviations(axes, 3 if thorough else 2):
        add([{a: c[f"{a}{j}"] for a in VAR_AXES} for j in range(c["n"])], c["fmt"])
    return out


# ------------------------------------------------------------------------------------------------
# Part R2: OptimizationProblem <-> HDF
# ------------------------------------------------------------------------------------------------
PROBLEMS = ["rosenbrock", "power2", "maxdoe", "unsolved", "lin_lp", "lin_sparse_lp", "lin_slsqp", "lin_sparse_unsolved"]
LP_ALGOS = ["INTERIOR_POINT", "DUAL_SIMPLEX"]


def _linear_problem(sparse: bool, maximize: bool, standardized: bool):
    """A linear program: MDOLinearFunction objective, one inequality and one 2-d equality constraint.

    min  x0 + 2 x1 - y + 0.5   s.t.  0.5 - x0 - x1 <= 0,  x1 + y - 1 = 0,  x0 - y + 0.25 = 0,  bounds;
    optimum (0.75, 0, 1).  ``maximize`` states the same program as the maximization of the opposite objective.
    """
    from gemseo.algos.design_space import DesignSpace
    from gemseo.algos.optimization_problem import OptimizationProblem
    from gemseo.core.mdo_functions.mdo_linear_function import MDOLinearFunction
    from scipy.sparse import csr_array

    names = NAME_TABLES[_SEED % len(NAME_TABLES)]
    ds = DesignSpace()
    ds.add_variable(names[0], 2, "float", 0.0, 2.0, np.array([1.0, 0.5]))
    ds.add_variable(names[1], 1, "float", -1.0, 3.0 + _SEED, 0.5)
    nm = [names[0], names[1]]

    def coef(a):
        a = np.array(a, dtype=float)
        return csr_array(np.atleast_2d(a)) if sparse else a

    sign = -1.0 if maximize else 1.0
    p = OptimizationProblem(ds, use_standardized_objective=standardized)
    assert p.is_linear
    p.objective = MDOLinearFunction(coef([sign * 1.0, sign * 2.0, -sign]), "cost", input_names=nm, f_type="obj", value_at_zero=sign * 0.5)
    p.add_constraint(MDOLinearFunction(coef([-1.0, -1.0, 0.0]), "demand", input_names=nm, value_at_zero=0.5), constraint_type="ineq")
    p.add_constraint(MDOLinearFunction(coef([[0.0, 1.0, 1.0], [1.0, 0.0, -1.0]]), "bal", input_names=nm, value_at_zero=np.array([-1.0, 0.25])), constraint_type="eq")
    if maximize:
        p.minimize_objective = False
    p.tolerances.equality = 1e-5
    p.tolerances.inequality = 3e-5
    if not p.is_linear:
        raise AssertionError("the harness problem is not linear")
    return p


def _custom_problem():
    from gemseo.algos.design_space import DesignSpace
    from gemseo.algos.optimization_problem import OptimizationProblem
    from gemseo.core.mdo_functions.mdo_function import MDOFunction

    names = NAME_TABLES[_SEED % len(NAME_TABLES)]
    ds = DesignSpace()
    ds.add_variable(names[1], 2, "float", np.array([-1.0, 0.0]), np.array([2.0, inf]), np.array([0.5, 1.0 / 3.0]))
    ds.add_variable(names[0], 1, "integer", 0, 3, 1)
    p = OptimizationProblem(ds)
    nm = [names[1], names[0]]
    p.objective = MDOFunction(lambda x: float(x[0] + 2 * x[1] - x[2]), "f", jac=lambda x: np.array([1.0, 2.0, -1.0]), expr="a+2b-c", input_names=nm, dim=1)
    p.minimize_objective = False
    p.add_constraint(MDOFunction(lambda x: x[:2] - 1.5, "c_b", jac=lambda x: np.eye(2, 3), expr="x[:2]-1.5", input_names=nm, dim=2, output_names=["c_b0", "c_b1"]), constraint_type="ineq")
    p.add_constraint(MDOFunction(lambda x: np.array([x[2] - 1.0]), "c_a", jac=lambda x: np.array([[0.0, 0.0, 1.0]]), expr="n-1", input_names=nm, dim=1), constraint_type="eq", value=0.25)
    obs = MDOFunction(lambda x: 3.0 * x[:2], "obs0", jac=lambda x: 3.0 * np.eye(2, 3), expr="3x", input_names=nm, dim=2, output_names=["o_a", "o_b"])
    obs.name = "obs"  # a renamed function: original_name stays "obs0"
    p.add_observable(obs)
    p.tolerances.equality = 0.3
    p.tolerances.inequality = 0.002
    p.differentiation_step = 1e-5
    return p


def _make_problem(kind: str):
    from gemseo import execute_algo
    from gemseo.core.mdo_functions.mdo_function import MDOFunction

    if kind == "rosenbrock":
        from gemseo.problems.optimization.rosenbrock import Rosenbrock

        p = Rosenbrock()
        execute_algo(p, algo_name="L-BFGS-B", max_iter=4 + _SEED % 3)
    elif kind == "power2":
        from gemseo.problems.optimization.power_2 import Power2

        p = Power2()
        p.add_observable(MDOFunction(lambda x: 2.0 * x[:2], "obs2", expr="2*x[:2]", input_names=["x"], dim=2, output_names=["o_a", "o_b"]))
        execute_algo(p, algo_name="SLSQP", max_iter=3 + _SEED % 3)
    elif kind == "maxdoe":
        p = _custom_problem()
        samples = np.array([[0.5, 1.0, 1.0], [2.0, 0.25, 3.0], [-1.0, 0.0, 0.0], [1.5, 1.5 + _SEED, 2.0]])
        execute_algo(p, algo_name="CustomDOE", algo_type="doe", samples=samples, eval_jac=True)
    elif kind == "unsolved":
        p = _custom_problem()
        p.preprocess_functions(is_function_input_normalized=False)
        for x in (np.array([0.5, 1.0, 1.0]), np.array([2.0, 0.25 + _SEED, 3.0])):
            p.objective.evaluate(x)
            p.constraints[0].evaluate(x)
        p.observables[0].evaluate(np.array([2.0, 0.25 + _SEED, 3.0]))
    elif kind == "lin_lp":
        p = _linear_problem(sparse=False, maximize=False, standardized=True)
        execute_algo(p, algo_name=LP_ALGOS[_SEED % 2])
    elif kind == "lin_sparse_lp":
        p = _linear_problem(sparse=True, maximize=True, standardized=False)
        execute_algo(p, algo_name=LP_ALGOS[(_SEED + 1) % 2])
    elif kind == "lin_slsqp":
        p = _linear_problem(sparse=False, maximize=True, standardized=True)
        execute_algo(p, algo_name="SLSQP", max_iter=6 + _SEED % 3)
    elif kind == "lin_sparse_unsolved":
        p = _linear_problem(sparse=True, maximize=False, standardized=False)
        p.preprocess_functions(is_function_input_normalized=False)
        for x in (np.array([0.75, 0.0, 1.0]), np.array([1.0, 0.5 + _SEED, 0.5])):
            p.objective.evaluate(x)
            p.constraints[1].evaluate(x)
    else:
        raise ValueError(kind)
    return p


def _plain(v):
    if isinstance(v, np.ndarray):
        return v.tolist()
    if isinstance(v, (list, tuple)):
        return [_plain(w) for w in v]
    if isinstance(v, (str, bytes)):
        return str(v)
    if isinstance(v, (np.generic,)):
        return v.item()
    return v


def _same_field(a, b) -> bool:
    from collections.abc import Mapping

    # "no constraint values" is an empty mapping in a driver's result and None after OptimizationResult.from_dict
    if isinstance(a, Mapping) and not a:
        a = None
    if isinstance(b, Mapping) and not b:
        b = None
    if a is None or b is None:
        return a is None and b is None
    if isinstance(a, Mapping) or isinstance(b, Mapping):
        if not (isinstance(a, Mapping) and isinstance(b, Mapping)) or set(a) != set(b):
            return False
        return all(_same_field(a[k], b[k]) for k in a)
    # oracle boundary: a sparse matrix (gradients of sparse linear constraints) may come back dense, values equal
    if hasattr(a, "toarray"):
        a = a.toarray()
    if hasattr(b, "toarray"):
        b = b.toarray()
    if isinstance(a, np.ndarray) or isinstance(b, np.ndarray):
        return np.shape(a) == np.shape(b) and np.array_equal(np.asarray(a), np.asarray(b))
    return _plain(a) == _plain(b)


# public descriptive attributes of a problem that to_hdf does not iterate over (plain, then derived ones)
EXTRA_DESCRIPTION = [
    "use_standardized_objective",
    "objective_name",
    "standardized_objective_name",
    "is_mono_objective",
    "function_names",
    "scalar_constraint_names",
    "equality_constraint_names",
    "inequality_constraint_names",
]
# written by to_hdf but read back by nothing, accepted (oracle boundary): ``result.design_space`` is an ad-hoc
# attribute set by BaseDriverLibrary._post_run that no code ever reads; it is written as the list of variable names
ACCEPTED_NOT_RESTORED = {"solution/design_space"}


def _descr(problem, name: str):
    """The value of a descriptive attribute, by the name used in the file / in the class."""
    try:
        if name == "ineq_tolerance":
            return problem.tolerances.inequality
        if name == "eq_tolerance":
            return problem.tolerances.equality
        if name == "equality_constraint_names":
            return sorted(c.name for c in problem.constraints.get_equality_constraints())
        if name == "inequality_constraint_names":
            return sorted(c.name for c in problem.constraints.get_inequality_constraints())
        value = getattr(problem, name)
        if name in ("function_names", "scalar_constraint_names"):
            return sorted(value)  # the order of the constraints is not part of the statement
        return value
    except Exception as e:  # e.g. is_mono_objective when the dimension cannot be determined
        return f"raises {type(e).__name__}"


def _file_keys_not_compared(path: str, node: str) -> list[str]:
    """Everything to_hdf wrote that is neither compared by ``compare_problem`` nor a known container.

    The compared sets are taken from the serialization code: ``_OPTIM_DESCRIPTION``, ``DICT_REPR_ATTR`` and the
    fields of ``OptimizationResult`` (+ ``constr:*`` / ``constr_grad:*``).
    """
    from dataclasses import fields

    import h5py
    from gemseo.algos.design_space import DesignSpace
    from gemseo.algos.optimization_problem import OptimizationProblem as OP
    from gemseo.algos.optimization_result import OptimizationResult
    from gemseo.core.mdo_functions.mdo_function import MDOFunction

    sol = {f.name for f in fields(OptimizationResult)}
    out = []
    with h5py.File(path, "r") as f:
        root = f[node] if node else f
        known = {"x", "k", "v", DesignSpace.DESIGN_SPACE_GROUP, OP._OPT_DESCR_GROUP, OP._OBJECTIVE_GROUP, OP._CONSTRAINTS_GROUP, OP._OBSERVABLES_GROUP, OP._SOLUTION_GROUP, "x_0_as_dict", "x_opt_as_dict"}
        out += [k for k in root if k not in known]
        out += [f"{OP._OPT_DESCR_GROUP}/{k}" for k in root[OP._OPT_DESCR_GROUP] if k not in OP._OPTIM_DESCRIPTION]
        groups = [(OP._OBJECTIVE_GROUP, root[OP._OBJECTIVE_GROUP])]
        for g in (OP._CONSTRAINTS_GROUP, OP._OBSERVABLES_GROUP):
            if g in root:
                groups += [(f"{g}/{n}", root[g][n]) for n in root[g]]
        for label, grp in groups:
            out += [f"{label}/{k}" for k in grp if k not in MDOFunction.DICT_REPR_ATTR]
        if OP._SOLUTION_GROUP in root:
            out += [f"{OP._SOLUTION_GROUP}/{k}" for k in root[OP._SOLUTION_GROUP] if k not in sol and not k.startswith(("constr:", "constr_grad:"))]
        if node:  # nothing of the problem may land outside its node
            out += [f"/{k}" for k in f if k != node.split("/")[0]]
    return out


def compare_problem(p, q) -> list[tuple[str, str, str]]:
    from dataclasses import fields

    from gemseo.algos.optimization_result import OptimizationResult
    from gemseo.core.mdo_functions.mdo_function import MDOFunction

    bad = [(inv, "design-space/" + k, m) for inv, k, m in compare_space(p.design_space, q.design_space, exact=True)]
    d = compare_db(p.database, q.database)
    if d:
        bad.append((d[0], "database", d[1]))

    def funcs(label, fs, gs):
        # oracle boundary: the *order* of constraints / observables is not part of the statement
        a, b = {f.name: f for f in fs}, {g.name: g for g in gs}
        if sorted(a) != sorted(b) or len(fs) != len(gs):
            bad.append((f"problem-{label}-names", "function-names", f"{[f.name for f in fs]} reloaded as {[g.name for g in gs]}"))
            return
        for n in a:
            for attr in MDOFunction.DICT_REPR_ATTR:
                u, v = getattr(a[n], attr), getattr(b[n], attr)
                if not _same_field(u, v):
                    bad.append((f"problem-function-{attr}", label, f"{label} {n!r}: {attr} {u!r} reloaded as {v!r}"))

    funcs("objective", [p.objective], [q.objective])
    funcs("constraint", list(p.constraints), list(q.constraints))
    funcs("observable", list(p.observables), list(q.observables))
    # the description attributes are enumerated from the list to_hdf itself iterates over, then the other public
    # descriptive attributes (plain or derived) of an optimization problem
    tol = []
    for name in [*type(p)._OPTIM_DESCRIPTION, *EXTRA_DESCRIPTION]:
        u, v = _descr(p, name), _descr(q, name)
        if _same_field(u, v):
            continue
        if name in ("eq_tolerance", "ineq_tolerance"):
            tol.append(f"{name}: {u!r} reloaded as {v!r}")
        else:
            bad.append((f"problem-{name}", "description", f"{name}: {u!r} reloaded as {v!r}"))
    if tol:
        bad.append(("problem-tolerances", "description", "tolerances: " + "; ".join(tol)))
    if (p.solution is None) != (q.solution is None):
        bad.append(("problem-solution-presence", "solution", f"{p.solution!r} reloaded as {q.solution!r}"))
    elif p.solution is not None:
        for f in fields(OptimizationResult):
            u, v = getattr(p.solution, f.name), getattr(q.solution, f.name, None)
            if not _same_field(u, v):
                bad.append((f"problem-solution-{f.name}", type(u).__name__, f"solution.{f.name}: {u!r} reloaded as {v!r}"))
    return bad


def _r2_observe(case: dict):
    from gemseo.algos.optimization_problem import OptimizationProblem

    p = _make_problem(case["problem"])
    node = case["node"]
    path = os.path.join(_SCRATCH, f"pb_{os.getpid()}_{next(_COUNTER)}.h5")
    try:
        try:
            p.to_hdf(path, append=case["append"], hdf_node_path=node)
            q = OptimizationProblem.from_hdf(path, hdf_node_path=node)
        except Exception as e:
            return [("problem-roundtrip-raises", type(e).__name__, f"{type(e).__name__}: {str(e)[:300]}")], "raised", {}
        bad = compare_problem(p, q)
        obs = {"constraints": [c.name for c in p.constraints], "constraints_reloaded": [c.name for c in q.constraints]}
        stray = _file_keys_not_compared(path, node)
        obs["written_not_restored"] = sorted({k for k in stray if k in ACCEPTED_NOT_RESTORED})
        for k in stray:
            if k not in ACCEPTED_NOT_RESTORED:
                bad.append(("problem-written-but-not-restored", "file-key", f"to_hdf wrote {k!r}, which from_hdf does not restore / the check does not compare"))
        # original_name is not in MDOFunction.DICT_REPR_ATTR (not serialized by design): observation only
        fp = {f.name: f.original_name for f in [p.objective, *p.constraints, *p.observables]}
        fq = {f.name: f.original_name for f in [q.objective, *q.constraints, *q.observables]}
        obs["original_name_lost"] = sorted(n for n in fp if n in fq and fp[n] != fq[n])
    finally:
        if os.path.exists(path):
            os.remove(path)
    return bad, f"{case['problem']}:pts{len(p.database)}:sol{int(p.solution is not None)}", obs


def _r2_case(case, tally):
    bad, outcome, obs = _r2_observe(case)
    tally.case(["R2", case], nontrivial=True, outcome="problem:" + outcome, sample=case)
    if obs and obs["constraints"] != obs["constraints_reloaded"]:
        tally.count("R2_constraint_order_changed_by_reload")
    for k in (obs or {}).get("written_not_restored", []):
        tally.count(f"R2_written_but_not_restored:{k}")
    if (obs or {}).get("original_name_lost"):
        tally.count("R2_function_original_name_not_serialized")
    for inv, kind, msg in bad:
        tally.violation({"invariant": inv, "op": "problem.hdf", "value_kind": kind}, {"part": "R2", **case}, f"{inv}: {msg}\n  case={case}")


def _r2_cases():
    return [{"problem": k, "node": n, "append": a} for n in NODES for a in (False, True) for k in PROBLEMS]


# ------------------------------------------------------------------------------------------------
# Part R3: HDF5Cache re-instantiated on the same file / node
# ------------------------------------------------------------------------------------------------
def _cache_discipline(sparse: bool):
    from gemseo.core.discipline import Discipline
    from scipy.sparse import csr_array

    class Harness(Discipline):
        def __init__(self):
            super().__init__("Harness")
            self.input_grammar.update_from_names(["x", "k"])
            self.output_grammar.update_from_names(["y", "zz"])
            self.default_input_data = {"x": np.array([1.0, 2.0]), "k": np.array([3])}

        def _run(self, input_data):
            x, k = self.io.data["x"], self.io.data["k"]
            self.io.data["y"] = np.array([x.sum() * k[0] + 0.1])
            self.io.data["zz"] = x * 2.0 / 3.0

        def _compute_jacobian(self, input_names=(), output_names=()):
            x, k = self.io.data["x"], self.io.data["k"]
            self.jac = {
                "y": {"x": np.full((1, 2), float(k[0])), "k": np.array([[x.sum()]])},
                "zz": {"x": np.eye(2) * 2.0 / 3.0, "k": np.zeros((2, 1))},
            }
            if sparse:
                self.jac["zz"]["x"] = csr_array(self.jac["zz"]["x"])

    return Harness()


def _cache_input(i: int) -> dict:
    if i >= 100:
        return {"x": np.array([1.0, 2.0]), "k": np.array([7 + _SEED])}
    return {"x": np.array([1.0 + 0.1 * _SEED, float(i) / 3.0])}


def _same_array(a, b) -> bool:
    from scipy.sparse import issparse

    if issparse(a) or issparse(b):
        return issparse(a) and issparse(b) and a.shape == b.shape and (a != b).nnz == 0
    a, b = np.asarray(a), np.asarray(b)
    return a.shape == b.shape and a.dtype.kind == b.dtype.kind and np.array_equal(a, b)


def _same_entry(e1, e2) -> str | None:
    for grp in ("inputs", "outputs"):
        a, b = getattr(e1, grp), getattr(e2, grp)
        if sorted(a) != sorted(b):
            return f"{grp} names {sorted(a)} vs {sorted(b)}"
        for n in a:
            if not _same_array(a[n], b[n]):
                return f"{grp}[{n!r}] {a[n]!r} vs {b[n]!r}"
    a, b = e1.jacobian or {}, e2.jacobian or {}
    if sorted(a) != sorted(b):
        return f"jacobian outputs {sorted(a)} vs {sorted(b)}"
    for o in a:
        if sorted(a[o]) != sorted(b[o]):
            return f"jacobian[{o!r}] inputs {sorted(a[o])} vs {sorted(b[o])}"
        for i in a[o]:
            if not _same_array(a[o][i], b[o][i]):
                return f"jacobian[{o!r}][{i!r}] {a[o][i]!r} vs {b[o][i]!r}"
    return None


def _r3_observe(case: dict):
    from gemseo.caches._hdf5_file_singleton import HDF5FileSingleton
    from gemseo.caches.hdf5_cache import HDF5Cache

    path = os.path.join(_SCRATCH, f"cache_{os.getpid()}_{next(_COUNTER)}.h5")
    bad = []
    try:
        d = _cache_discipline(case["sparse"])
        d.set_cache("HDF5Cache", hdf_file_path=path, hdf_node_path=case["node"], tolerance=case["tol"])
        for op, i in case["ops"]:
            if op == "exe":
                d.execute(_cache_input(i))
            else:
                d.linearize(_cache_input(i), compute_all_jacobians=True)
        c1 = d.cache
        # a sibling node written to the same file in between must not disturb the node under test
        other = _cache_discipline(False)
        other.set_cache("HDF5Cache", hdf_file_path=path, hdf_node_path="other_" + case["node"].split("/")[0])
        other.execute(_cache_input(5))
        c2 = HDF5Cache(hdf_file_path=path, hdf_node_path=case["node"], tolerance=case["tol"])
        e1, e2 = list(c1.get_all_entries()), list(c2.get_all_entries())
        if len(c1) != len(c2) or len(e1) != len(e2):
            bad.append(("cache-length", "entries", f"len {len(c1)}/{len(e1)} entries in the writing cache, {len(c2)}/{len(e2)} after re-instantiation"))
        else:
            for j, (a, b) in enumerate(zip(e1, e2)):
                msg = _same_entry(a, b)
                if msg:
                    bad.append(("cache-entry", "jacobian" if "jacobian" in msg else "data", f"entry #{j}: {msg}"))
                    break
            for i in sorted({i for _, i in case["ops"]} | {0}):
                full = {**d.default_input_data, **_cache_input(i)}
                a, b = c1[full], c2[full]
                msg = _same_entry(a, b)
                if msg:
                    bad.append(("cache-lookup", "jacobian" if "jacobian" in msg else "data", f"lookup of input #{i}: {msg}"))
                    break
        n_jac = sum(1 for e in e1 if e.jacobian)
        outcome = f"entries{min(len(e1), 4)}:jac{min(n_jac, 3)}"
    except Exception as e:
        import traceback

        bad.append(("cache-roundtrip-raises", type(e).__name__, traceback.format_exc()[-600:]))
        outcome = "raised"
    finally:
        HDF5FileSingleton.instances.clear()
        if os.path.exists(path):
            os.remove(path)
    return bad, outcome


def _r3_case(case, tally):
    bad, outcome = _r3_observe(case)
    ops = case["ops"]
    nontrivial = any(o == "lin" for o, _ in ops) and len({tuple(o) for o in ops}) < len(ops) or len(ops) > 3
    tally.case(["R3", case], nontrivial=bool(nontrivial), outcome="cache:" + outcome, sample=case if nontrivial else None)
    for inv, kind, msg in bad:
        tally.violation({"invariant": inv, "op": "cache.reopen", "value_kind": kind}, {"part": "R3", **case}, f"{inv}: {msg}\n  case={case}")


def _r3_cases(thorough: bool):
    menu = [["exe", 0], ["lin", 0], ["exe", 1], ["lin", 1], ["exe", 100]]
    hists = []
    for n in range(1, (4 if thorough else 3) + 1):
        hists += [list(h) for h in itertools.product(menu, repeat=n)]
    # more than 9 entries (HDF5 lists the entry groups "1", "10", "11", "2", ... alphabetically)
    hists.append([["exe", i] if i % 3 else ["lin", i] for i in range(12)] + [["exe", 100]])
    out = []
    for node in ("node", "grp/sub"):
        for sparse in (False, True):
            for h in hists:
                if sparse and not any(o == "lin" for o, _ in h):
                    continue
                if not thorough and node != "node" and 2 < len(h) < 10:
                    continue  # quick: the nested node gets the histories of length <= 2 and the long one
                out.append({"ops": h, "node": node, "sparse": sparse, "tol": 0.0})
    out.append({"ops": hists[-1], "node": "node", "sparse": False, "tol": 1e-9})
    return out


def _set_globals(ctx):
    global _SCRATCH, _SEED
    _SCRATCH = ctx.scratch
    _SEED = ctx.seed % 3


# ------------------------------------------------------------------------------------------------
# run / replay
# ------------------------------------------------------------------------------------------------
def run(ctx):
    bounds = {}
    only = getattr(ctx, "only", None)
    _set_globals(ctx)
    t = ctx.tally
    if not only or "R1" in only:
        cases = _r1_cases(ctx.thorough)
        pmap(_r1_case, cases, t, jobs=ctx.jobs, chunk=100, timeout=60)
        bounds["R1_design_space"] = {"cases": len(cases), "one_variable": "full product of " + "x".join(VAR_AXES) + " x 3 formats", "two_three_variables_max_deviations": 3 if ctx.thorough else 2}
    if not only or "R2" in only:
        cases = _r2_cases()
        pmap(_r2_case, cases, t, jobs=ctx.jobs, chunk=1, timeout=120)
        bounds["R2_problem"] = {"cases": len(cases), "problems": PROBLEMS, "nodes": NODES, "append": [False, True]}
    if not only or "R3" in only:
        cases = _r3_cases(ctx.thorough)
        pmap(_r3_case, cases, t, jobs=ctx.jobs, chunk=20, timeout=120)
        bounds["R3_cache"] = {"cases": len(cases), "history_length": 4 if ctx.thorough else 3, "long_history_entries": 13}
    if not only or "H" in only:
        bounds["H_database"] = run_h(ctx)
    return {
        "level": LEVEL,
        "rule": "H: BFS over store/export histories of a Database and its HDF file (new point with a menu of output "
        "subsets, one new output at an old point, append export, full export; root and nested node); a history is "
        "non-trivial when it has at least two exports, the last one in append mode, with a store between the last two.  "
        "R1: one-variable design spaces = full product of size x type x lower x upper bound kind x value presence x "
        "format, 2-3 variables = bounded deviations; non-trivial = anything but a size-1 bounded float variable with a "
        "value.  R2: problem x node x append.  R3: all execute/linearize sequences to the length bound x node x "
        "sparse; non-trivial = a linearization and a repeated operation.  distinct = distinct histories / cases.",
        "exhaustive": True,
        "bounds": bounds,
        "assumptions": [
            "H: points are introduced in index order (they are interchangeable up to dtype; the dtype pattern is rotated by VERIF_SEED)",
            "H: the value kind of an output is fixed per (arrival position of the point, name); 3 tables rotated by VERIF_SEED",
            "H: only new names are stored at old points; exports go to one file per history",
            "the order of names inside one database entry and the order of constraints/observables of a reloaded problem are not compared",
            "text format: reloaded == original to half a unit of the 16th significant digit (+ half an ulp)",
            "empty design spaces are not enumerated (from_hdf refuses them by design)",
            "R2: compared attributes are enumerated from OptimizationProblem._OPTIM_DESCRIPTION, MDOFunction.DICT_REPR_ATTR and the fields of OptimizationResult, plus the public derived ones; every key found in the written file must belong to these sets",
            "R2: accepted: sparse constraint gradients reload dense; solution/design_space (ad-hoc, never read) is written but not restored; MDOFunction.original_name is not serialized (counted, not a violation)",
        ],
    }


def replay(case, ctx):
    _set_globals(ctx)
    _CFG.update(_cfg(ctx))
    if "history" in case:
        hist = case["history"]
        s = Sys(ctx.scratch, hist[0][1])
        viol = []
        log = []
        for op in hist[1:]:
            try:
                out = _apply(s, op)
            except Rejected as r:
                out = f"rejected: {r}"
            log.append([op, out])
            viol += [{"invariant": i, "op": op[0], "message": m} for i, m in s.findings]
        s.close()
        return {"history": hist, "log": log, "violations": viol}
    part = case.get("part")
    if part == "R1":
        bad, outcome = _r1_observe(case)
    elif part == "R2":
        bad, outcome, _ = _r2_observe(case)
    elif part == "R3":
        bad, outcome = _r3_observe(case)
    else:
        raise ValueError("unknown case")
    return {"case": case, "outcome": outcome, "violations": [{"invariant": i, "value_kind": k, "message": m} for i, k, m in bad]}
