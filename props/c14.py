"""C14 - DOE samples honour bounds, types, sample count and seed (engine E2, level "exploration").

Full product of
    every algorithm name of ``DOELibraryFactory().algorithms``
  x dimension in {1, 2, 3, 5}            (1, 2, 2 and 4 variables; one variable of size 2; names whose sort order
                                          differs from the design-space order)
  x bound layout in {unit, asym, neg, tiny, degenerate (a component with lb == ub)}
  x variable types in {float, integer, mixed}
  x size parameter: n_samples in {1, 2, 5, 13} for the algorithms driven by a number of samples, plus the
    levels / centers / face / initial-point / input-form alphabets of the structured designs (``SIZES`` below)
  x seed in {unset, 0, 7}               (for the algorithms that have a seed setting)
  x entry point in {``compute_doe``, ``execute`` on an ``OptimizationProblem``}.

Tiers: thorough is the product above; quick keeps every algorithm, dimension, layout, type mix and entry point and
reduces value axes only (seed in {unset, 0}; n_samples in {1, 13} for sampling algorithms, {1, 5, 13, 60} for structured
ones).  A subset (entry compute_doe, layout asym, mixed types - integer in dimension 1) is recomputed in fresh
interpreter processes started with another PYTHONHASHSEED.

History axis (see ``check_history``): every algorithm x {first DOE | normalize_vect | nothing (control)} -> ONE bound
edit (tighten/loosen ub, raise/lower lb, infinite bound made finite) on the SAME DesignSpace -> DOE through both entry
points, on an all-float space and on an integer/mixed space whose integer-normalization switch is already on; the
second design is held to the bounds set by the harness and to the design of a freshly built equal space.

Oracles (DESIGN.md section 5, C14) - all comparisons are exact (``==`` on float64, ``tobytes``):

  shape                 2-D array with one column per design-space component, finite values
  inside-bounds         lb <= samples <= ub (algorithms designed to fill the domain only, see ``oracle_table``); an
                        excess within the rounding error of the affine map u*(ub-lb)+lb (<= 4 eps max(|lb|,|ub|)) is
                        reported under the separate invariant ``inside-bounds-rounding``
  unit-in-cube          0 <= unit samples <= 1                               (same algorithms)
  integer-components    integer components hold integral values
  column-order          columns follow the design-space order: the layouts asym/neg/degenerate have pairwise
                        disjoint ranges per component, so ``inside-bounds`` decides it for every algorithm; it is
                        checked explicitly for DiagonalDOE (``reverse`` by variable name / by index) and CustomDOE
                        (dictionary inputs listed in another order than the design space)
  count                 exactly n for sampling algorithms; the documented count for structured designs;
                        never more than the requested ``n_samples``
  determinism           same (algorithm, settings, seed) twice - a fresh library instance, the same instance again
                        when the seed is explicit, and (for a subset) a second interpreter process - gives bitwise
                        identical samples
  image                 samples == design_space.untransform_vect(unit_samples) (integer normalization enabled as
                        during the call) and == the independent formula round_int(u * (ub - lb) + lb)
  database              (entry ``execute``) the database keys are the rows of ``library.samples``, first occurrences
                        in order
  switch-restored       ``design_space.enable_integer_variables_normalization`` has its initial value after the call
                        (both initial values are enumerated)
  switch-restored-after-error   the same when the call raised one of the library's own errors
  arguments-unchanged   every array / mapping / list handed to the library (custom samples as float or integer array,
                        dictionary, list of dictionaries; OAT initial point; levels / centers / reverse lists; nested
                        algorithm settings) is bitwise what it was, after every call; the repeated calls of a case
                        reuse the very same objects, so that a consequence also breaks the determinism oracles
  design-definition     the unit design is the one the settings document: full-factorial = full product of the
                        per-component level sets (levels[i] equispaced values, the centre for one level; every levels
                        vector over {1,2,3} for d <= 3) - OT_FULLFACT and PYDOE_FULLFACT are held to the same
                        reference, hence agree as point sets; axial / factorial / composite = centre, c_i + l(1 - c_i)
                        and c_i - l c_i per component (per-component centers included); pyDOE response-surface designs
                        = the direct pyDOE3 design mapped by (x + 1) / 2, row by row; PYDOE_FF2N = the corners

Oracle boundaries (also written to the evidence, ``oracle_table``):

* The statement quantifies the bounds clause over the algorithms "designed to fill the domain".  ``OT_SOBOL_INDICES``
  (pick-freeze design for Sobol' indices), ``OATDOE`` (one-at-a-time steps from a user point, with a user step) and
  ``PYDOE_CCDESIGN`` with ``face`` circumscribed/ccc (star points outside the cube by definition) are held only to
  shape / integrality / count / determinism / image / switch; whether their samples were inside is only counted.
* ``PoissonDisk`` cannot always place n points (packing limit of the radius): held to "never more than requested";
  how often it returns fewer is counted.  In dimension 5 its default radius 0.05 costs ~28 s and gigabytes per call
  (SciPy grid of (sqrt(d)/radius)^d cells), so dimension 5 uses radius 0.25 (cap, reported in the meta data).
* ``OT_SOBOL_INDICES`` documents no count: only "never more than requested".
* pyDOE's response-surface designs document their count in pyDOE: the oracle is the row count of a direct pyDOE3 call
  (closed form 2^d for ``PYDOE_FF2N``).
* Integer variables have integral bounds (a DesignSpace accepts non-integral ones; rounding may then leave the
  bounds - not a DOE matter, not enumerated).
* Unsuitable combinations (too few samples for the design, dimension below the minimum, n_samples=1 for an LHS
  optimiser, seed 0 for a PositiveInt seed) are rejected by the library; the case is counted as skipped by error class
  and only ``switch-restored-after-error`` is evaluated.  An algorithm whose every case is skipped is reported.
"""
from __future__ import annotations

import hashlib
import itertools
import json
import os
import subprocess
import sys
import tempfile
from pathlib import Path

import numpy as np

from mc import product
from mc.core import pmap

LEVEL = "exploration"
ROOT = Path(__file__).resolve().parent.parent

DIMS = [1, 2, 3, 5]
LAYOUTS = ["unit", "asym", "neg", "tiny", "degenerate"]
TYPES = ["float", "integer", "mixed"]
SEEDS = [None, 0, 7]
ENTRIES = ["compute_doe", "execute"]
N_VALUES = [1, 2, 5, 13]

# design-space order != sorted order of the names; one variable of size 2 from dimension 3 on
VARS = {1: [("x", 1)], 2: [("z", 1), ("a", 1)], 3: [("z", 1), ("a", 2)], 5: [("z", 1), ("a", 2), ("m", 1), ("b", 1)]}

# Three equally valid value alphabets (rotated by VERIF_SEED).  Per component index: (lb, ub); "F" for float
# components, "I" for integer components.  Within asym and neg the ranges are pairwise disjoint (column order).
TABLES = [
    {
        "asym": {"F": [(-3.0, -1.0), (10.0, 10.5), (2.0, 7.0), (100.0, 1000.0), (-0.5, 0.25)], "I": [(-3, -1), (10, 12), (2, 7), (100, 1000), (20, 21)]},
        "neg": {"F": [(-5.0, -2.0), (-1.5, -0.5), (-100.0, -10.0), (-8.0, -7.0), (-0.3, -0.1)], "I": [(-5, -2), (-7, -6), (-100, -10), (-9, -8), (-1, 0)]},
        "tiny": {"F": [(0.1, 0.3), (1e6, 1e6 + 1e-3), (10.0, 10.0 + 1e-9), (-1e-12, 1e-12), (0.7, 0.7000001)], "I": [(3, 4), (1000000, 1000001), (-1, 0), (0, 1), (-8, -7)]},
    },
    {
        "asym": {"F": [(-7.3, -0.9), (3.1, 3.35), (40.0, 45.7), (1e3, 1e4), (-0.125, 0.0625)], "I": [(-9, -4), (3, 5), (40, 46), (1000, 10000), (60, 61)]},
        "neg": {"F": [(-6.6, -1.1), (-0.9, -0.2), (-1e3, -1e2), (-3.3, -3.2), (-0.07, -0.01)], "I": [(-6, -1), (-12, -11), (-1000, -100), (-20, -19), (-8, -7)]},
        "tiny": {"F": [(0.2, 0.6), (1e8, 1e8 + 1e-2), (3.0, 3.0 + 1e-10), (-1e-15, 1e-15), (1.0 / 3.0, 1.0 / 3.0 + 1e-7)], "I": [(7, 8), (10**9, 10**9 + 1), (0, 1), (-1, 0), (-3, -2)]},
    },
    {
        "asym": {"F": [(-0.7, 0.1), (1.1, 1.3), (5.5, 9.9), (2e4, 3e4), (-11.0, -10.2)], "I": [(-2, 0), (1, 4), (5, 9), (20000, 30000), (-11, -10)]},
        "neg": {"F": [(-0.7, -0.1), (-2.2, -1.9), (-50.0, -5.0), (-13.0, -12.9), (-1e-3, -1e-4)], "I": [(-3, -1), (-5, -4), (-50, -6), (-13, -12), (-70, -60)]},
        "tiny": {"F": [(0.3, 0.9), (123456.7, 123456.7 + 1e-4), (1.0, 1.0 + 2.0**-40), (-1e-9, 1e-9), (0.6, 0.6 + 1e-8)], "I": [(1, 2), (65535, 65536), (-2, -1), (0, 1), (9, 10)]},
    },
]

EXPECTED_ERRORS = (ValueError, AssertionError, TypeError)  # pydantic ValidationError is a ValueError; pyDOE asserts;
# OpenTURNS' InvalidArgumentException surfaces as TypeError

# ------------------------------------------------------------------------------------------------------------------
# algorithm table
# ------------------------------------------------------------------------------------------------------------------
SAMPLING = [
    "OT_SOBOL", "OT_RANDOM", "OT_HASELGROVE", "OT_REVERSE_HALTON", "OT_HALTON", "OT_FAURE", "OT_MONTE_CARLO",
    "OT_OPT_LHS", "OT_LHS", "OT_LHSC", "PYDOE_LHS", "Halton", "LHS", "MC", "Sobol",
]  # fmt: skip
N_SIZES = [f"n{n}" for n in N_VALUES]
STRATIFIED = {"OT_AXIAL": lambda d: 2 * d, "OT_FACTORIAL": lambda d: 2**d, "OT_COMPOSITE": lambda d: 2 * d + 2**d}

# per-component numbers of levels of the full-factorial designs: every vector over {1, 2, 3} in dimension <= 3 (a 1 in
# every position), three vectors in dimension 5; a vector applies to the dimension equal to its length
LEVEL_VECTORS = ["Lv" + "-".join(map(str, v)) for k in (1, 2, 3) for v in itertools.product((1, 2, 3), repeat=k)] + ["Lv1-2-3-1-2", "Lv3-1-2-1-2", "Lv2-2-1-3-1"]
CENTER_VECTOR = [0.25, 0.5, 0.75, 0.4, 0.6]

# size alphabets of the structured designs (label -> meaning in ``settings_for``)
SIZES = {
    **{a: N_SIZES for a in SAMPLING},
    "PoissonDisk": N_SIZES,
    "DiagonalDOE": [*N_SIZES, "n5/rev-last-name", "n5/rev-index0"],
    "OT_FULLFACT": [*N_SIZES, "n60", "L1", "L2", "Lvec", *LEVEL_VECTORS],
    "PYDOE_FULLFACT": [*N_SIZES, "n60", "L1", "L2", "Lvec", *LEVEL_VECTORS],
    "OT_AXIAL": [*N_SIZES, "n60", "lev(.5,1)", "lev(.2,.8)c.25", "lev(.2,.8)c-vec"],
    "OT_FACTORIAL": [*N_SIZES, "n60", "lev(.5,1)", "lev(.2,.8)c.25", "lev(.2,.8)c-vec"],
    "OT_COMPOSITE": [*N_SIZES, "n60", "lev(.5,1)", "lev(.2,.8)c.25", "lev(.2,.8)c-vec"],
    "OT_SOBOL_INDICES": [*N_SIZES, "n60", "n13/first-order", "n60/first-order"],
    "MorrisDOE": [*N_SIZES, "n60", "default", "n13/step.3"],
    "OATDOE": ["p.5", "p-linspace", "p.97", "p.3/step.5"],
    "CustomDOE": [*N_SIZES, "n5/int-array", "n5/dict-reordered", "n2/list-of-dicts", "n5/file"],
    "PYDOE_BBDESIGN": ["default", "center1", "center2"],
    "PYDOE_CCDESIGN": ["default", "inscribed", "faced", "ccc/rotatable", "cci/rotatable/c(1,0)", "ccf/c(0,1)"],
    "PYDOE_FF2N": ["default"],
    "PYDOE_PBDESIGN": ["default"],
}
NOT_DOMAIN_FILLING = {
    "OT_SOBOL_INDICES": "pick-freeze design for Sobol' indices, not in the statement's list",
    "OATDOE": "one-at-a-time steps from a user point with a user step, not in the statement's list",
}
SEED_KEYS = {"seed": "seed", "random_state": "random_state"}


def algo_info(algo: str) -> dict:
    """Seed setting and oracle classes of an algorithm (read from its settings model)."""
    from gemseo.algos.doe.factory import DOELibraryFactory

    lib = DOELibraryFactory().create(algo)
    fields = lib.ALGORITHM_INFOS[algo].Settings.model_fields
    seed_key = next((k for k in SEED_KEYS if k in fields), None)
    if algo == "MorrisDOE":
        seed_key = "doe_algo_settings.random_state"
    if algo in SAMPLING:
        kind, count = "sampling", "exactly n_samples"
    elif algo == "PoissonDisk":
        kind, count = "sampling (packing-limited)", "<= n_samples (fewer counted)"
    elif algo in SIZES:
        kind, count = "structured", {
            "DiagonalDOE": "n_samples",
            "OT_FULLFACT": "k^d, k = max{k: k^d <= n_samples}; prod(levels)",
            "PYDOE_FULLFACT": "k^d, k = max{k: k^d <= n_samples}; prod(levels)",
            "OT_AXIAL": "1 + 2d*L, L = (n-1)//(2d) or len(levels)",
            "OT_FACTORIAL": "1 + 2^d*L, L = (n-1)//2^d or len(levels)",
            "OT_COMPOSITE": "1 + (2d+2^d)*L, L = (n-1)//(2d+2^d) or len(levels)",
            "OT_SOBOL_INDICES": "<= n_samples (no documented count)",
            "MorrisDOE": "(d+1)*(n//(d+1)); 5(d+1) by default",
            "OATDOE": "d + 1",
            "CustomDOE": "number of input rows",
            "PYDOE_FF2N": "2^d",
        }.get(algo, "rows of the direct pyDOE3 call")
    else:  # an algorithm this module does not know (plugin): weakest oracles
        kind, count = "unclassified", "<= n_samples"
    return {
        "kind": kind,
        "count": count,
        "min_dim": int(lib.ALGORITHM_INFOS[algo].minimum_dimension),
        "seed_setting": seed_key,
        "has_n_samples": "n_samples" in fields,
        "bounds_held": algo not in NOT_DOMAIN_FILLING and kind != "unclassified",
        "note": NOT_DOMAIN_FILLING.get(algo, "PYDOE_CCDESIGN: bounds held for inscribed/faced only" if algo == "PYDOE_CCDESIGN" else ""),
    }


def sizes_of(algo: str, info: dict) -> list[str]:
    if algo in SIZES:
        return SIZES[algo]
    return N_SIZES if info["has_n_samples"] else ["default"]


# ------------------------------------------------------------------------------------------------------------------
# design spaces
# ------------------------------------------------------------------------------------------------------------------
def component_types(d: int, types: str) -> list[bool]:
    """Per component: is it an integer component."""
    out = []
    for k, (_, size) in enumerate(VARS[d]):
        integer = types == "integer" or (types == "mixed" and k % 2 == 1)
        out += [integer] * size
    return out


def bounds_of(d: int, layout: str, types: str, table: int):
    ints = component_types(d, types)
    base = "asym" if layout == "degenerate" else layout
    lb, ub = [], []
    for j in range(d):
        if base == "unit":
            lo, hi = (0, 1) if ints[j] else (0.0, 1.0)
        else:
            lo, hi = TABLES[table][base]["I" if ints[j] else "F"][j]
        lb.append(float(lo))
        ub.append(float(hi))
    if layout == "degenerate":
        j = 0 if d == 1 else 1
        ub[j] = lb[j]
    return np.array(lb), np.array(ub), np.array(ints, dtype=bool)


def build_space(d: int, lb, ub, ints, int_norm: bool = False):
    """A new DesignSpace with the variables of dimension ``d`` and the given bounds (which may be infinite)."""
    from gemseo.algos.design_space import DesignSpace

    ds = DesignSpace()
    off = 0
    for name, size in VARS[d]:
        sl = slice(off, off + size)
        ds.add_variable(name, size, "integer" if ints[off] else "float", np.array(lb[sl], dtype=float), np.array(ub[sl], dtype=float))
        off += size
    if int_norm:
        ds.enable_integer_variables_normalization = True
    return ds


def make_space(d: int, layout: str, types: str, table: int, int_norm: bool = False):
    lb, ub, ints = bounds_of(d, layout, types, table)
    return build_space(d, lb, ub, ints, int_norm), lb, ub, ints


# ------------------------------------------------------------------------------------------------------------------
# settings and expected counts
# ------------------------------------------------------------------------------------------------------------------
T_GRID = [0.0, 1.0, 0.5, 0.1, 0.9, 0.3, 0.7, 0.2, 0.8, 0.4, 0.6]


def custom_rows(n: int, lb, ub, ints) -> np.ndarray:
    """n points inside the bounds (first rows: all lower bounds, all upper bounds), integral on integer components."""
    d = lb.size
    t = np.array([[T_GRID[(i + 3 * j * (i > 1)) % len(T_GRID)] for j in range(d)] for i in range(n)])
    x = lb + t * (ub - lb)
    x = np.where(ints, np.round(x), x)
    return np.clip(x, lb, ub)


def _n_of(size: str) -> int | None:
    head = size.split("/")[0]
    return int(head[1:]) if head.startswith("n") and head[1:].isdigit() else None


def settings_for(case: dict, lb, ub, ints, scratch: str | None):
    """The settings of the case (as passed to the library) and what the statement promises about the count.

    Returns ``(settings, expect)`` with ``expect`` = {"exact": int|None, "max": int|None, "bounds": bool, ...}.
    """
    algo, size, d, seed, info = case["algo"], case["size"], case["d"], case["seed"], case["info"]
    n = _n_of(size)
    s: dict = {}
    exp = {"exact": None, "max": None, "bounds": info["bounds_held"]}
    names = [v for v, _ in VARS[d]]
    if n is not None and (info["has_n_samples"] or algo not in SIZES) and algo != "CustomDOE":
        s["n_samples"] = n
        exp["max"] = n
    if algo in SAMPLING:
        exp["exact"] = n
    elif algo == "PoissonDisk":
        if d >= 5:
            s["radius"] = 0.25  # cost cap, see the module docstring
    elif algo == "DiagonalDOE":
        exp["exact"] = n
        if size.endswith("rev-last-name"):
            s["reverse"] = [names[-1]]
        elif size.endswith("rev-index0"):
            s["reverse"] = ["0"]
    elif algo in ("OT_FULLFACT", "PYDOE_FULLFACT"):
        if n is not None:
            k = 1
            while (k + 1) ** d <= n:
                k += 1
            exp["exact"] = k**d
        else:
            levels = [int(x) for x in size[2:].split("-")] if size.startswith("Lv") and size != "Lvec" else {"L1": 1, "L2": 2, "Lvec": [1, 2, 3, 1, 2][:d]}[size]
            if isinstance(levels, list) and len(levels) != d:
                raise Inapplicable("levels vector of another dimension")
            s["levels"] = levels
            exp["exact"] = int(np.prod(levels)) if isinstance(levels, list) else levels**d
    elif algo in STRATIFIED:
        block = STRATIFIED[algo](d)
        if n is not None:
            n_levels = (n - 1) // block
            exp["exact"] = 1 + block * n_levels if n_levels >= 1 else None  # else the library must refuse (not an oracle)
        else:
            s["levels"] = [0.5, 1.0] if size == "lev(.5,1)" else [0.2, 0.8]
            if size.endswith("c.25"):
                s["centers"] = [0.25] * d
            elif size.endswith("c-vec"):
                s["centers"] = CENTER_VECTOR[:d]
            exp["exact"] = 1 + block * 2
    elif algo == "OT_SOBOL_INDICES":
        if size.endswith("first-order"):
            s["eval_second_order"] = False
    elif algo == "MorrisDOE":
        if size == "default":
            exp["exact"] = 5 * (d + 1)
        else:
            exp["exact"] = (d + 1) * (n // (d + 1)) if n >= d + 1 else None
        if size.endswith("step.3"):
            s["step"] = 0.3
    elif algo == "OATDOE":
        exp["exact"] = d + 1
        point = {"p.5": [0.5] * d, "p-linspace": list(np.linspace(0.0, 1.0, d)) if d > 1 else [1.0], "p.97": [0.97] * d, "p.3/step.5": [0.3] * d}[size]
        s["initial_point"] = np.array(point, dtype=float)
        if size.endswith("step.5"):
            s["step"] = 0.5
    elif algo == "CustomDOE":
        rows = custom_rows(n, lb, ub, ints)
        exp["exact"] = n
        form = size.split("/")[1] if "/" in size else "array"
        if form == "int-array":
            rows = np.round(rows)
            if ((rows < lb) | (rows > ub)).any():
                raise Inapplicable("no integral points inside these bounds")
        exp["custom_rows"] = rows.copy()  # the reference is private: the library is handed ``rows`` itself
        exp["custom_form"] = form
        off, parts = 0, {}
        for name, sz in VARS[d]:
            parts[name] = rows[:, off : off + sz]
            off += sz
        if form == "array":
            s["samples"] = rows
        elif form == "int-array":
            s["samples"] = rows.astype(np.int64)
        elif form == "dict-reordered":
            s["samples"] = {k: parts[k] for k in sorted(parts)}  # sorted order != design-space order for d >= 2
        elif form == "list-of-dicts":
            s["samples"] = [{k: parts[k][i] for k in sorted(parts)} for i in range(n)]
        else:
            import pandas

            path = os.path.join(scratch or tempfile.gettempdir(), f"c14_custom_{os.getpid()}.csv")
            Path(path).write_text("\n".join(",".join(repr(float(v)) for v in row) for row in rows) + "\n")
            s["doe_file"] = path
            # Oracle boundary: the input of the DOE is what the CSV parser delivers.  pandas' default float parser is
            # not correctly rounded (a bound written with 17 digits may come back one ulp outside); the reference rows
            # are the parsed ones and the bounds clause is held only if they are inside.
            parsed = pandas.read_csv(path, header=None).to_numpy(dtype=float)
            if not same(parsed, rows):
                exp["file_parse_inexact"] = True
                exp["custom_rows"] = parsed
                if ((parsed < lb) | (parsed > ub)).any():
                    exp["bounds"] = False
    elif algo == "PYDOE_BBDESIGN":
        if size != "default":
            s["center"] = int(size[-1])
    elif algo == "PYDOE_CCDESIGN":
        face = {"default": None, "inscribed": "inscribed", "faced": "faced", "ccc/rotatable": "ccc", "cci/rotatable/c(1,0)": "cci", "ccf/c(0,1)": "ccf"}[size]
        if face:
            s["face"] = face
        if "rotatable" in size:
            s["alpha"] = "rotatable"
        if "c(1,0)" in size:
            s["center"] = (1, 0)
        if "c(0,1)" in size:
            s["center"] = (0, 1)
        exp["bounds"] = face in ("inscribed", "faced", "cci", "ccf")
    elif algo == "PYDOE_FF2N":
        exp["exact"] = 2**d
    if algo.startswith("PYDOE_") and algo not in ("PYDOE_LHS", "PYDOE_FULLFACT", "PYDOE_FF2N") and algo in SIZES:
        exp["pydoe"] = True
    # seed
    if seed is not None:
        key = info["seed_setting"]
        if key == "doe_algo_settings.random_state":
            s["doe_algo_settings"] = {"random_state": seed}
        elif key:
            s[key] = seed
    return s, exp


def pydoe_rows(algo: str, d: int, s: dict) -> int | None:
    """Row count of the design as documented by pyDOE (direct call)."""
    import pyDOE3

    try:
        if algo == "PYDOE_BBDESIGN":
            return len(pyDOE3.bbdesign(d, center=s.get("center")))
        if algo == "PYDOE_CCDESIGN":
            return len(pyDOE3.ccdesign(d, center=tuple(s.get("center", (4, 4))), alpha=s.get("alpha", "orthogonal"), face=s.get("face", "circumscribed")))
        if algo == "PYDOE_PBDESIGN":
            return len(pyDOE3.pbdesign(d))
    except Exception:
        return None
    return None


# ------------------------------------------------------------------------------------------------------------------
# running one DOE
# ------------------------------------------------------------------------------------------------------------------
_FACTORY = None


def factory():
    global _FACTORY
    if _FACTORY is None:
        from gemseo.algos.doe.factory import DOELibraryFactory

        _FACTORY = DOELibraryFactory()
    return _FACTORY


class Inapplicable(Exception):
    """The size label does not apply to this dimension / these bounds (counted, never silent)."""


def snapshot(obj):
    """A deep private copy of everything handed to the library."""
    if isinstance(obj, np.ndarray):
        return obj.copy()
    if isinstance(obj, dict):
        return {k: snapshot(v) for k, v in obj.items()}
    if isinstance(obj, (list, tuple)):
        return type(obj)(snapshot(v) for v in obj)
    return obj


def unchanged(obj, ref) -> bool:
    """Bitwise comparison of the caller's objects with their snapshot (same types, keys, order, dtypes, bytes)."""
    if type(obj) is not type(ref):
        return False
    if isinstance(obj, np.ndarray):
        return same(obj, ref)
    if isinstance(obj, dict):
        return list(obj) == list(ref) and all(unchanged(obj[k], ref[k]) for k in obj)
    if isinstance(obj, (list, tuple)):
        return len(obj) == len(ref) and all(unchanged(a, b) for a, b in zip(obj, ref))
    return obj == ref


def call(algo: str, ds, settings: dict, entry: str, lib=None, unit: bool = False):
    """One DOE.  Returns (library, samples, unit_samples or None, database rows or None)."""
    lib = lib or factory().create(algo)
    if entry == "compute_doe":
        out = lib.compute_doe(ds, unit_sampling=unit, **settings)
        return lib, out, None, None
    from gemseo.algos.optimization_problem import OptimizationProblem
    from gemseo.core.mdo_functions.mdo_function import MDOFunction

    problem = OptimizationProblem(ds)
    problem.objective = MDOFunction(lambda x: float(np.sum(x)), "f")
    lib.execute(problem, enable_progress_bar=False, **settings)
    rows = [np.asarray(x) for x in problem.database.get_x_vect_history()]
    return lib, lib.samples, lib.unit_samples, rows


def same(a, b) -> bool:
    a, b = np.asarray(a), np.asarray(b)
    return a.shape == b.shape and a.dtype.str == b.dtype.str and a.tobytes() == b.tobytes()


def digest_of(a) -> str:
    a = np.ascontiguousarray(np.asarray(a))
    return hashlib.blake2b(repr((a.dtype.str, a.shape)).encode() + a.tobytes(), digest_size=10).hexdigest()


def _short(a, limit: int = 6):
    a = np.asarray(a)
    return np.array2string(a[:limit], precision=17, max_line_width=200, threshold=200)


def _short_obj(obj) -> str:
    if isinstance(obj, np.ndarray):
        return _short(obj, 3)
    return repr(obj)[:200]


def point_set(points) -> set:
    """The rows as a set; coordinates rounded to 1e-12 (the level values of the designs below are >= 0.01 apart and
    computed with a handful of roundings of size 1e-16)."""
    return {tuple(float(v) + 0.0 for v in np.round(row, 12)) for row in np.asarray(points, dtype=float)}


def design_definition(algo: str, d: int, settings: dict, unit: np.ndarray) -> str | None:
    """Independent reconstruction of the unit design from the documentation of the settings; a message if it differs."""
    levels = settings.get("levels")
    if algo in ("OT_FULLFACT", "PYDOE_FULLFACT"):
        if levels is None or levels == ():  # deduced from n_samples: k levels per component, k^d <= n < (k+1)^d
            k = 1
            while (k + 1) ** d <= settings["n_samples"]:
                k += 1
            levels = k
        per = [levels] * d if isinstance(levels, int) else list(levels)
        # component i takes levels[i] equispaced values from 0 to 1 (its centre for a single level); full product
        values = [[0.5] if n == 1 else [j / (n - 1) for j in range(n)] for n in per]
        got = point_set(unit)
        for i, vals in enumerate(values):
            col = {round(float(v), 12) + 0.0 for v in unit[:, i]}
            if col != {round(v, 12) + 0.0 for v in vals}:
                return f"levels {per}: component {i} must take the {per[i]} value(s) {vals}; it takes {sorted(col)}"
        if len(unit) != len(got) or got != point_set(list(itertools.product(*values))):
            return f"levels {per}: the design is not the full product of the per-component level sets ({len(got)} distinct points of {len(unit)})"
        return None
    if algo in STRATIFIED and levels:
        centers = settings.get("centers", 0.5)
        c = [float(centers)] * d if isinstance(centers, (int, float)) else list(centers)
        # a level l moves component i from its centre c_i to c_i + l (1 - c_i) and c_i - l c_i
        pts = {tuple(c)}
        for lev in levels:
            hi = [ci + lev * (1 - ci) for ci in c]
            lo = [ci - lev * ci for ci in c]
            if algo in ("OT_AXIAL", "OT_COMPOSITE"):
                for i in range(d):
                    for v in (hi[i], lo[i]):
                        pts.add(tuple(v if j == i else c[j] for j in range(d)))
            if algo in ("OT_FACTORIAL", "OT_COMPOSITE"):
                for signs in itertools.product((0, 1), repeat=d):
                    pts.add(tuple(hi[i] if sg else lo[i] for i, sg in enumerate(signs)))
        if point_set(unit) != point_set(list(pts)):
            extra = sorted(point_set(unit) - point_set(list(pts)))[:3]
            missing = sorted(point_set(list(pts)) - point_set(unit))[:3]
            return f"centers {c}, levels {list(levels)}: unexpected points {extra}, missing points {missing}"
        return None
    if algo in ("PYDOE_BBDESIGN", "PYDOE_CCDESIGN", "PYDOE_PBDESIGN", "PYDOE_FF2N"):
        import pyDOE3

        if algo == "PYDOE_FF2N":  # all the corners of the cube
            ref = point_set(list(itertools.product((0.0, 1.0), repeat=d)))
            return None if point_set(unit) == ref and len(unit) == 2**d else f"the 2-level full factorial design is not the set of corners: {_short(unit)}"
        direct = {
            "PYDOE_BBDESIGN": lambda: pyDOE3.bbdesign(d, center=settings.get("center")),
            "PYDOE_CCDESIGN": lambda: pyDOE3.ccdesign(d, center=tuple(settings.get("center", (4, 4))), alpha=settings.get("alpha", "orthogonal"), face=settings.get("face", "circumscribed")),
            "PYDOE_PBDESIGN": lambda: pyDOE3.pbdesign(d),
        }[algo]()
        ref = (np.asarray(direct, dtype=float) + 1.0) * 0.5  # the documented map of pyDOE's [-1, 1] coding to [0, 1]
        return None if ref.shape == unit.shape and np.array_equal(ref, unit) else f"not the pyDOE design mapped to the unit cube: {_short(unit)} vs {_short(ref)}"
    return None


def check_case(case: dict, scratch: str | None = None) -> dict:
    """Execute one case on the real code and evaluate every oracle that applies to it."""
    algo, d, layout, types, table, entry, seed, info = (case[k] for k in ("algo", "d", "layout", "types", "table", "entry", "seed", "info"))
    res = {"violations": [], "outcome": "", "obs": {}, "executed": False, "digest": None, "sharp": False}
    bad = res["violations"].append
    ds, lb, ub, ints = make_space(d, layout, types, table)
    obs = res["obs"]
    try:
        settings, exp = settings_for(case, lb, ub, ints, scratch)
    except Inapplicable as e:
        res["outcome"] = f"not-applicable:{e}"
        return res
    obs["settings"] = {k: (v if not isinstance(v, np.ndarray) else v.tolist()) for k, v in settings.items() if k != "samples"}
    # The library is handed the caller's own objects (arrays, mappings, lists) at every call of this case; ``passed`` is
    # a private deep copy: "the call does not modify its arguments" is checked after each call, and the repeated calls
    # below reuse the same objects (so that a consequence shows up in the determinism oracles as well).
    passed = snapshot(settings)

    def arguments_unchanged(where: str) -> None:
        if not unchanged(settings, passed):
            changed = [k for k in settings if not unchanged(settings[k], passed[k])]
            bad(("arguments-unchanged", f"{where} modified the objects passed by the caller for the settings {changed}: {_short_obj(passed[changed[0]])} became {_short_obj(settings[changed[0]])}"))

    before = ds.enable_integer_variables_normalization
    try:
        lib, samples, unit, rows = call(algo, ds, settings, entry)
    except EXPECTED_ERRORS as e:
        res["outcome"] = f"skipped:{type(e).__name__}"
        obs["error"] = f"{type(e).__name__}: {str(e)[:200]}"
        arguments_unchanged(f"the refused {entry}")
        if ds.enable_integer_variables_normalization != before:
            bad(("switch-restored-after-error", f"enable_integer_variables_normalization was {before} before the call and is {ds.enable_integer_variables_normalization} after it raised {type(e).__name__}: {str(e)[:160]}"))
        return res
    res["executed"] = True
    arguments_unchanged(entry)
    samples = np.asarray(samples)
    if exp.get("file_parse_inexact"):
        obs["file_parse_inexact"] = True
    obs.update(n=int(samples.shape[0]) if samples.ndim else None, lb=lb.tolist(), ub=ub.tolist(), integer=ints.tolist())

    # shape ------------------------------------------------------------------------------------------------------
    if samples.ndim != 2 or samples.shape[1] != d or samples.dtype.kind != "f":
        bad(("shape", f"samples have shape {samples.shape} dtype {samples.dtype}; expected (n, {d}) float"))
        res["outcome"] = "bad-shape"
        return res
    if not np.isfinite(samples).all():
        bad(("shape", f"non-finite samples {_short(samples)}"))
    res["digest"] = digest_of(samples)
    n_got = samples.shape[0]

    # inside the bounds (exact) ------------------------------------------------------------------------------------
    outside = (samples < lb) | (samples > ub)
    if outside.any():
        i, j = np.argwhere(outside)[0]
        msg = f"sample {i} component {j} = {samples[i, j]!r} outside [{lb[j]!r}, {ub[j]!r}] (excess {max(lb[j] - samples[i, j], samples[i, j] - ub[j])!r}); {int(outside.sum())} components outside"
        # Rounding class: x = fl(fl(u * fl(ub - lb)) + lb) with u in [0, 1] carries three roundings of relative size
        # 2^-53 on quantities bounded by |ub - lb| <= 2M and M = max(|lb|, |ub|): it can exceed a bound by at most
        # 5 * 2^-53 * M < 4 * eps * M.  Such an excess is reported under its own invariant (one defect site: the affine
        # map of DesignSpace.unnormalize_vect is not exact at u = 1), anything larger as ``inside-bounds``.
        excess = np.maximum(lb - samples, samples - ub)
        rounding = 4 * np.finfo(float).eps * np.maximum(np.abs(lb), np.abs(ub))
        gross = outside & (excess > rounding)
        if not exp["bounds"]:
            obs["outside_not_held"] = msg
        elif gross.any():
            i, j = np.argwhere(gross)[0]
            bad(("inside-bounds", f"sample {i} component {j} = {samples[i, j]!r} outside [{lb[j]!r}, {ub[j]!r}] (excess {excess[i, j]!r}); {int(gross.sum())} components outside"))
        else:
            bad(("inside-bounds-rounding", msg + f" - within the rounding error of the affine map ({rounding[j]!r})"))
    # integrality --------------------------------------------------------------------------------------------------
    if ints.any():
        col = samples[:, ints]
        if (col != np.round(col)).any():
            bad(("integer-components", f"integer components hold {_short(col)}"))
    # count --------------------------------------------------------------------------------------------------------
    if exp.get("pydoe"):
        exp["exact"] = pydoe_rows(algo, d, settings)
    if exp["exact"] is not None and n_got != exp["exact"]:
        bad(("count", f"{n_got} samples; the documented count for these settings is {exp['exact']} ({info['count']})"))
    if exp["max"] is not None and n_got > exp["max"]:
        bad(("count-more-than-requested", f"{n_got} samples for n_samples={exp['max']}"))
    if algo == "PoissonDisk" and n_got < exp["max"]:
        obs["fewer_than_requested"] = True
    # switch -------------------------------------------------------------------------------------------------------
    if ds.enable_integer_variables_normalization != before:
        bad(("switch-restored", f"enable_integer_variables_normalization was {before} before the call and is {ds.enable_integer_variables_normalization} after it"))
    # explicit column-order oracles ---------------------------------------------------------------------------------
    if algo == "DiagonalDOE":
        rev = np.zeros(d, dtype=bool)
        if settings.get("reverse") == ["0"]:
            rev[0] = True
        elif settings.get("reverse"):
            rev[d - VARS[d][-1][1] :] = True
        diff = np.diff(samples, axis=0)
        wrong = np.where(rev, (diff > 0).any(axis=0), (diff < 0).any(axis=0))
        # from one end of the range to the other (the exact end values are the business of inside-bounds / image)
        ends_ok = np.where(rev, samples[0] >= samples[-1], samples[0] <= samples[-1]) & ((lb == ub) | (samples[0] != samples[-1]))
        if wrong.any() or not ends_ok.all():
            bad(("column-order", f"reverse={settings.get('reverse')}: expected reversed components {rev.tolist()}, first sample {samples[0]}, last {samples[-1]}"))
    if algo == "CustomDOE":
        given = exp["custom_rows"]
        # the output is untransform(transform(input)): two affine maps, each with a few roundings of relative size eps
        # on quantities bounded by max(|lb|, |ub|): a permutation of columns is off by the (disjoint) ranges instead
        tol = 16 * np.finfo(float).eps * np.maximum(np.abs(lb), np.abs(ub))
        if given.shape != samples.shape or (np.abs(samples - given) > tol).any():
            bad(("column-order", f"custom samples given as {exp['custom_form']} in design-space order {_short(given)} came back as {_short(samples)}"))
    # determinism ---------------------------------------------------------------------------------------------------
    # (the second run starts from the other initial value of the integer-normalization switch when there are integer
    # components: the samples must not depend on it and it must be left as it was)
    deterministic = True
    other = bool(ints.any())
    ds2 = make_space(d, layout, types, table, int_norm=other)[0]
    try:
        _, again, unit2, _ = call(algo, ds2, settings, entry)
    except EXPECTED_ERRORS as e:
        again = f"raised {type(e).__name__}: {str(e)[:160]}"
    arguments_unchanged(f"the second {entry}")
    if isinstance(again, str):
        deterministic = False
        bad(("determinism", f"the first {entry} succeeded; repeated with the same objects on a fresh library instance and an equal design space it {again}"))
    elif not same(samples, again):
        deterministic = False
        bad(("determinism", f"two fresh library instances, same settings, seed={seed}" + (", enable_integer_variables_normalization initially False then True" if other else "") + f": {_short(samples, 3)} then {_short(again, 3)}"))
    if ds2.enable_integer_variables_normalization is not other:
        bad(("switch-restored", f"enable_integer_variables_normalization was {other} before the call and is {ds2.enable_integer_variables_normalization} after it"))
    if seed is not None and info["seed_setting"]:
        ds3 = make_space(d, layout, types, table)[0]
        try:
            _, third, _, _ = call(algo, ds3, settings, entry, lib=lib)
        except EXPECTED_ERRORS as e:
            third = f"raised {type(e).__name__}: {str(e)[:160]}"
        arguments_unchanged(f"the {entry} repeated on the same library instance")
        if isinstance(third, str):
            deterministic = False
            bad(("determinism-same-instance", f"the first {entry} succeeded; repeated on the same library instance it {third}"))
        elif not same(samples, third):
            deterministic = False
            bad(("determinism-same-instance", f"second call of the same library instance with seed={seed}: {_short(samples, 3)} then {_short(third, 3)}"))
    # image of the unit samples --------------------------------------------------------------------------------------
    if entry == "compute_doe":
        ds4 = make_space(d, layout, types, table)[0]
        b4 = ds4.enable_integer_variables_normalization
        try:
            _, unit, _, _ = call(algo, ds4, settings, entry, unit=True)
        except EXPECTED_ERRORS as e:
            deterministic, unit = False, np.empty((0, d))
            bad(("image", f"compute_doe succeeded but compute_doe(unit_sampling=True) with the same objects raised {type(e).__name__}: {str(e)[:160]}"))
        arguments_unchanged("compute_doe(unit_sampling=True)")
        if ds4.enable_integer_variables_normalization != b4:
            bad(("switch-restored", "unit_sampling=True changed enable_integer_variables_normalization"))
    unit = np.asarray(unit)
    if deterministic:
        if unit.shape != samples.shape:
            bad(("image", f"unit samples have shape {unit.shape}, samples {samples.shape}"))
        else:
            if exp["bounds"] and ((unit < 0.0) | (unit > 1.0)).any():
                k = np.argwhere((unit < 0.0) | (unit > 1.0))[0]
                bad(("unit-in-cube", f"unit sample {k[0]} component {k[1]} = {unit[k[0], k[1]]!r}"))
            ds5 = make_space(d, layout, types, table, int_norm=True)[0]
            image = np.asarray(ds5.untransform_vect(unit.copy(), no_check=True))
            formula = unit * (ub - lb) + lb
            formula = np.where(ints, np.round(formula), formula)
            if not same(samples, image.astype(float)):
                bad(("image", f"samples {_short(samples, 3)} != untransform_vect(unit samples) {_short(image, 3)} (unit {_short(unit, 3)})"))
            elif not np.array_equal(samples, formula):
                bad(("image-formula", f"samples {_short(samples, 3)} != round_int(u*(ub-lb)+lb) {_short(formula, 3)}"))
    # the design itself, where the documentation defines it ----------------------------------------------------------
    if deterministic and unit.shape == samples.shape:
        msg = design_definition(algo, d, settings, unit)
        if msg:
            bad(("design-definition", msg))
    # database keys -------------------------------------------------------------------------------------------------
    if rows is not None:
        seen, first = set(), []
        for r in samples:
            k = r.tobytes()
            if k not in seen:
                seen.add(k)
                first.append(r)
        if len(rows) != len(first) or any(not np.array_equal(a, b) for a, b in zip(rows, first)):
            bad(("database", f"database holds {len(rows)} points {_short(np.array(rows), 3)}; distinct samples in order: {len(first)} {_short(np.array(first), 3)}"))
        obs["distinct_rows"] = len(first)
    dup = len({r.tobytes() for r in samples}) < n_got
    res["sharp"] = layout != "unit" or bool(ints.any())
    res["outcome"] = f"{info['kind']}:ok" + (":repeated-points" if dup else "") + (":outside(not held)" if "outside_not_held" in obs else "") + (":fewer-than-n" if obs.get("fewer_than_requested") else "")
    obs["first_samples"] = samples[:3].tolist()
    return res


# ------------------------------------------------------------------------------------------------------------------
# enumeration
# ------------------------------------------------------------------------------------------------------------------
SCRATCH = None


def case_key(case: dict) -> tuple:
    return (case["algo"], case["d"], case["layout"], case["types"], case["size"], case["seed"], case["entry"])


# invariants that do not look at the bounds: one signature per algorithm, whatever the layout
LAYOUT_FREE = {"arguments-unchanged", "design-definition", "count", "count-more-than-requested", "switch-restored", "determinism", "determinism-same-instance", "determinism-second-process"}


def signature(inv: str, case: dict) -> dict:
    """algorithm + invariant + layout class (the site of ``switch-restored-after-error`` is the entry point of the base class)."""
    if inv == "switch-restored-after-error":
        return {"invariant": inv, "algorithm": "any", "layout": "any", "entry": case["entry"]}
    return {"invariant": inv, "algorithm": case["algo"], "layout": "any" if inv in LAYOUT_FREE else case["layout"]}


def run_case(case: dict, tally) -> None:
    if case.get("kind") == "history":
        return run_history(case, tally)
    res = check_case(case, SCRATCH)
    key = case_key(case)
    algo = case["algo"]
    sampled = res["executed"] and case["layout"] == "asym" and case["types"] == "mixed" and case["d"] == 3 and case["seed"] in (0, None) and case["entry"] == "compute_doe" and case["size"] in ("n5", "default", "p.5")
    light = {k: v for k, v in case.items() if k != "info"}
    tally.case(key, nontrivial=res["executed"] and res["sharp"], outcome=res["outcome"], sample={"case": light, "observed": res["obs"]} if sampled and algo in ("OT_LHS", "MorrisDOE", "PYDOE_CCDESIGN", "Sobol", "OT_AXIAL", "CustomDOE") else None)
    if res["executed"]:
        tally.count(f"executed:{algo}")
        if "outside_not_held" in res["obs"]:
            tally.count(f"outside-bounds(not held):{algo}")
        if res["obs"].get("file_parse_inexact"):
            tally.count("CustomDOE:file-values-changed-by-the-CSV-parser")
        if res["obs"].get("fewer_than_requested"):
            tally.count("PoissonDisk:fewer-than-requested")
        if case.get("xproc") and res["digest"]:
            tally.sets.setdefault("xproc", set()).add((json.dumps(light, sort_keys=True), res["digest"]))
    elif res["outcome"].startswith("not-applicable"):
        tally.count(f"{res['outcome']}:{algo}:{case['size']}")
    else:
        tally.count(f"skipped:{algo}:{res['outcome'].split(':', 1)[1]}")
    seen = set()
    for inv, msg in res["violations"]:
        if inv in seen:
            continue
        seen.add(inv)
        tally.violation(
            signature(inv, case),
            light,
            f"{inv}: {algo} size={case['size']} d={case['d']} layout={case['layout']} types={case['types']} seed={case['seed']} entry={case['entry']} (table {case['table']})\n"
            f"settings={res['obs'].get('settings')}\n{msg}",
        )


# ------------------------------------------------------------------------------------------------------------------
# history axis: DOE (or a normalization) -> ONE bound edit on the SAME design space -> DOE again
# ------------------------------------------------------------------------------------------------------------------
# The caches of a DesignSpace (bound vectors, normalization factors, normalized components) are filled by the first
# design and must be invalidated by a bound edit.  The DOE library toggles enable_integer_variables_normalization
# around a sampling, which re-invalidates them as a side effect - but only for a space whose switch is off; hence the
# two spaces: all-float, and integer/mixed with the switch already enabled by the user.  Each edit is ONE call of
# set_lower_bound / set_upper_bound on one variable (a second invalidating call could mask a missing invalidation).
# Oracles of the second design, against the bounds set by the harness (never read from the cached bound vectors):
#   history:getters            get_lower_bound(name) / get_upper_bound(name) return what was set
#   history:refused            the edited space refuses a DOE that a freshly built equal space accepts (or conversely)
#   inside-bounds(-rounding) / integer-components   as for a single design
#   history:image              samples == round_int(u * (ub' - lb') + lb') with the unit samples of the same space
#   history:same-as-fresh-space  bitwise the design computed on a freshly built space with the edited bounds
#                              (same algorithm, settings, seed => same samples; the two spaces are equal)
#   switch-restored            as for a single design
# The order (edit, DOE) on a space that never normalized anything is the control.
H_SPACES = ["float", "int-switch-on"]
H_EDITS = ["tighten-ub", "loosen-ub", "raise-lb", "lower-lb", "inf-ub-made-finite", "inf-lb-made-finite"]
H_ORDERS = ["doe,edit,doe", "normalize,edit,doe", "execute,edit,doe", "edit,doe"]
H_SIZE = {
    **{a: "n5" for a in SAMPLING},
    "PoissonDisk": "n5", "DiagonalDOE": "n5", "OT_FULLFACT": "n5", "PYDOE_FULLFACT": "n5", "OT_AXIAL": "lev(.5,1)",
    "OT_FACTORIAL": "lev(.5,1)", "OT_COMPOSITE": "lev(.5,1)", "OT_SOBOL_INDICES": "n13", "MorrisDOE": "n13", "OATDOE": "p.5",
    "CustomDOE": "n5", "PYDOE_BBDESIGN": "default", "PYDOE_CCDESIGN": "faced", "PYDOE_FF2N": "default", "PYDOE_PBDESIGN": "default",
}  # fmt: skip


def history_bounds(case: dict):
    """(initial lb, ub), (edited lb, ub), integer mask, slice and name of the edited variable."""
    d, table = case["d"], case["table"]
    types = "float" if case["space"] == "float" else ("integer" if d == 1 else "mixed")
    lb, ub, ints = bounds_of(d, "asym", types, table)
    k = 0 if case["var"] == "first" else len(VARS[d]) - 1
    off = sum(size for _, size in VARS[d][:k])
    name, size = VARS[d][k]
    sl = slice(off, off + size)
    lb0, ub0, lb1, ub1 = lb.copy(), ub.copy(), lb.copy(), ub.copy()
    w = ub[sl] - lb[sl]
    integer = bool(ints[off])
    edit = case["edit"]
    if edit == "tighten-ub":
        ub1[sl] = lb[sl] + (np.maximum(1.0, w // 4) if integer else w / 4)
    elif edit == "loosen-ub":
        ub1[sl] = ub[sl] + w
    elif edit == "raise-lb":
        lb1[sl] = lb[sl] + (np.maximum(1.0, w // 2) if integer else w / 2)
    elif edit == "lower-lb":
        lb1[sl] = lb[sl] - w
    elif edit == "inf-ub-made-finite":
        ub0[sl] = np.inf
    elif edit == "inf-lb-made-finite":
        lb0[sl] = -np.inf
    else:
        raise ValueError(edit)
    return (lb0, ub0), (lb1, ub1), ints, sl, name


def check_history(case: dict, scratch: str | None = None) -> dict:
    algo, d, entry, order = case["algo"], case["d"], case["entry"], case["order"]
    res = {"violations": [], "outcome": "", "obs": {}, "executed": False, "sharp": order != "edit,doe"}
    bad = res["violations"].append
    obs = res["obs"]
    (lb0, ub0), (lb1, ub1), ints, sl, name = history_bounds(case)
    pre = case["space"] == "int-switch-on"
    ds = build_space(d, lb0, ub0, ints, int_norm=pre)
    finite0 = (np.where(np.isfinite(lb0), lb0, ub0 - 1.0), np.where(np.isfinite(ub0), ub0, lb0 + 1.0))

    # step 1 -------------------------------------------------------------------------------------------------------
    first = order.split(",")[0]
    if first in ("doe", "execute"):
        s0, _ = settings_for(case, finite0[0], finite0[1], ints, scratch)
        try:
            call(algo, ds, s0, "compute_doe" if first == "doe" else "execute")
            obs["first_step"] = "executed"
        except EXPECTED_ERRORS as e:
            obs["first_step"] = f"refused: {type(e).__name__}: {str(e)[:100]}"
    elif first == "normalize":
        ds.normalize_vect(finite0[0].copy())
        obs["first_step"] = "normalize_vect"
    # the edit: ONE call -----------------------------------------------------------------------------------------------
    if case["edit"] in ("tighten-ub", "loosen-ub", "inf-ub-made-finite"):
        ds.set_upper_bound(name, ub1[sl].copy())
    else:
        ds.set_lower_bound(name, lb1[sl].copy())
    off, got_lb, got_ub = 0, [], []
    for n, size in VARS[d]:
        got_lb.append(np.asarray(ds.get_lower_bound(n), dtype=float))
        got_ub.append(np.asarray(ds.get_upper_bound(n), dtype=float))
    if not (np.array_equal(np.concatenate(got_lb), lb1) and np.array_equal(np.concatenate(got_ub), ub1)):
        bad(("history:getters", f"per-variable bounds after the edit {np.concatenate(got_lb)}, {np.concatenate(got_ub)}; set {lb1}, {ub1}"))
    obs.update(lb=lb1.tolist(), ub=ub1.tolist(), integer=ints.tolist(), initial_lb=jsonable_bounds(lb0), initial_ub=jsonable_bounds(ub0))

    # step 2 on the edited space, and the same DOE on a freshly built equal space ----------------------------------------
    settings, exp = settings_for(case, lb1, ub1, ints, scratch)
    given = snapshot(settings)
    obs["settings"] = {k: (v if not isinstance(v, np.ndarray) else v.tolist()) for k, v in settings.items() if k != "samples"}
    before = ds.enable_integer_variables_normalization
    fresh_ds = build_space(d, lb1, ub1, ints, int_norm=pre)
    # Oracle boundary: a first ``execute`` leaves its best point as the current value of the space (documented side
    # effect), which decides the dtype of all-integer designs and is checked against the bounds by a later ``execute``.
    # The equal fresh space carries the same current value; if the edit put it outside the bounds, refusing to execute
    # is legitimate and the designs are compared by value.
    current = None
    if ds.has_current_value:
        cur = np.asarray(ds.get_current_value())
        if ((cur >= lb1) & (cur <= ub1)).all():
            fresh_ds.set_current_value(cur.copy())
            current = "copied"
        else:
            current = "outside"
        obs["current_value_left_by_the_first_step"] = current
    err = ferr = None
    try:
        lib, samples, unit, _ = call(algo, ds, settings, entry)
    except EXPECTED_ERRORS as e:
        err = f"{type(e).__name__}: {str(e)[:200]}"
    try:
        _, fresh, _, _ = call(algo, fresh_ds, settings, entry)
    except EXPECTED_ERRORS as e:
        ferr = f"{type(e).__name__}: {str(e)[:200]}"
    if not unchanged(settings, given):
        bad(("arguments-unchanged", f"the DOE modified the objects passed by the caller: {_short_obj(given)} became {_short_obj(settings)}"))
    if ds.enable_integer_variables_normalization != before:
        bad(("switch-restored", f"enable_integer_variables_normalization was {before} before the second DOE and is {ds.enable_integer_variables_normalization} after it"))
    if err or ferr:
        if bool(err) != bool(ferr) and not (current == "outside" and err and entry == "execute"):
            bad(("history:refused", f"edited space: {err or 'executed'}; freshly built space with the same bounds: {ferr or 'executed'}"))
        res["outcome"] = f"history:skipped:{(err or ferr).split(':')[0]}"
        obs["error"] = err or ferr
        return res
    res["executed"] = True
    samples = np.asarray(samples)
    if samples.ndim != 2 or samples.shape[1] != d:
        bad(("shape", f"samples have shape {samples.shape}"))
        res["outcome"] = "bad-shape"
        return res
    obs["n"] = int(samples.shape[0])
    outside = (samples < lb1) | (samples > ub1)
    if outside.any():
        i, j = np.argwhere(outside)[0]
        excess = np.maximum(lb1 - samples, samples - ub1)
        rounding = 4 * np.finfo(float).eps * np.maximum(np.abs(lb1), np.abs(ub1))
        gross = outside & (excess > rounding)
        if not exp["bounds"]:
            obs["outside_not_held"] = True
        elif gross.any():
            i, j = np.argwhere(gross)[0]
            bad(("inside-bounds", f"second design: sample {i} component {j} = {samples[i, j]!r} outside the edited bounds [{lb1[j]!r}, {ub1[j]!r}] (bounds before the edit [{lb0[j]!r}, {ub0[j]!r}]); {int(gross.sum())} components outside"))
        else:
            bad(("inside-bounds-rounding", f"second design: sample {i} component {j} = {samples[i, j]!r} outside [{lb1[j]!r}, {ub1[j]!r}] within the rounding error of the affine map"))
    if ints.any() and (samples[:, ints] != np.round(samples[:, ints])).any():
        bad(("integer-components", f"integer components hold {_short(samples[:, ints])}"))
    if entry == "compute_doe":
        _, unit, _, _ = call(algo, ds, settings, entry, unit=True)
    unit = np.asarray(unit)
    if unit.shape == samples.shape:
        formula = unit * (ub1 - lb1) + lb1
        formula = np.where(ints, np.round(formula), formula)
        if not np.array_equal(samples, formula):
            bad(("history:image", f"second design {_short(samples, 3)} is not round_int(u*(ub-lb)+lb) {_short(formula, 3)} for the edited bounds {lb1}, {ub1} (before the edit {lb0}, {ub0})"))
    else:
        bad(("history:image", f"unit samples have shape {unit.shape}, samples {samples.shape}"))
    if not (same(samples, fresh) or (current == "outside" and np.array_equal(samples, np.asarray(fresh)))):
        bad(("history:same-as-fresh-space", f"second design on the edited space {_short(samples, 3)}; on a freshly built space with the same bounds {_short(np.asarray(fresh), 3)}"))
    res["outcome"] = "history:ok" + (":first-step-refused" if str(obs.get("first_step", "")).startswith("refused") else "")
    obs["first_samples"] = samples[:3].tolist()
    return res


def jsonable_bounds(a) -> list:
    return [float(v) if np.isfinite(v) else ("inf" if v > 0 else "-inf") for v in a]


def history_cases(ctx, table: int, infos: dict, tally):
    """quick: every algorithm x d in {1, 2} x both spaces x 5 edits x {doe | normalize first, control} x both entries."""
    dims = [1, 2, 3] if ctx.thorough else [1, 2]
    edits = H_EDITS if ctx.thorough else H_EDITS[:5]
    orders = H_ORDERS if ctx.thorough else [o for o in H_ORDERS if o != "execute,edit,doe"]
    variables = ["last", "first"] if ctx.thorough else ["last"]
    for algo, info in infos.items():
        if getattr(ctx, "only", None) and ctx.only not in algo:
            continue
        size = H_SIZE.get(algo) or sizes_of(algo, info)[0]
        seed = 7 if info["seed_setting"] else None
        algo_dims = sorted({max(x, info.get("min_dim", 1)) for x in dims})
        for c in product.full({"d": algo_dims, "space": H_SPACES, "edit": edits, "var": variables, "order": orders, "entry": ENTRIES}):
            if c["var"] == "first" and len(VARS[c["d"]]) == 1:
                continue
            yield {"kind": "history", "algo": algo, **c, "size": size, "seed": seed, "table": table, "info": info, "layout": "history", "types": c["space"]}


def run_history(case: dict, tally) -> None:
    res = check_history(case, SCRATCH)
    algo = case["algo"]
    light = {k: v for k, v in case.items() if k != "info"}
    key = ("history", algo, case["d"], case["space"], case["edit"], case["var"], case["order"], case["entry"])
    sampled = res["executed"] and algo in ("OT_LHS", "OT_FULLFACT") and case["d"] == 2 and case["edit"] == "tighten-ub" and case["order"] == "doe,edit,doe" and case["entry"] == "compute_doe"
    tally.case(key, nontrivial=res["executed"] and res["sharp"], outcome=res["outcome"], sample={"case": light, "observed": res["obs"]} if sampled else None)
    tally.count("history:executed" if res["executed"] else "history:refused-by-the-library")
    if res["executed"]:
        tally.count(f"history-executed:{algo}")
    seen = set()
    for inv, msg in res["violations"]:
        if inv in seen:
            continue
        seen.add(inv)
        tally.violation(
            {"invariant": inv, "algorithm": algo, "layout": "history"},
            light,
            f"{inv}: {algo} history [{case['order']}] edit={case['edit']} of the {case['var']} variable, space={case['space']} d={case['d']} size={case['size']} seed={case['seed']} entry={case['entry']} (table {case['table']})\n"
            f"settings={res['obs'].get('settings')} first step: {res['obs'].get('first_step', '-')}\n{msg}",
        )


def quick_size(algo: str, size: str) -> bool:
    return size != "n2" and not (size == "n5" and (algo in SAMPLING or algo == "PoissonDisk"))


def axes_for(ctx) -> dict:
    """Quick reduces value axes only: every algorithm, every layout, every type mix and both entry points stay."""
    if ctx.thorough:
        return {"d": DIMS, "layout": LAYOUTS, "types": TYPES, "seed": SEEDS, "entry": ENTRIES, "sizes": None}
    # quick: seed in {unset, 0} (0 is the sharp one: falsy, and refused by PositiveInt seeds); n_samples in {1, 13} for
    # the sampling algorithms and {1, 5, 13, 60} for the structured ones (5 and 13 are exact fits of several designs)
    return {"d": DIMS, "layout": LAYOUTS, "types": TYPES, "seed": SEEDS[:2], "entry": ENTRIES, "sizes": quick_size}


def enumerate_cases(ctx, table: int, infos: dict, tally):
    ax = axes_for(ctx)
    for algo, info in infos.items():
        if getattr(ctx, "only", None) and ctx.only not in algo:
            continue
        sizes = sizes_of(algo, info)
        if ax["sizes"] is not None:
            sizes = [s for s in sizes if ax["sizes"](algo, s)]
        seeds = ax["seed"] if info["seed_setting"] else [None]
        # simplest first: dimension, layout, types, size, seed, entry
        for c in product.full({"d": ax["d"], "layout": ax["layout"], "types": ax["types"], "size": sizes, "seed": seeds, "entry": ax["entry"]}):
            if c["size"].startswith("Lv") and c["size"] != "Lvec":
                if c["size"].count("-") + 1 != c["d"]:
                    continue  # a levels vector belongs to the alphabet of its own dimension only
                if not ctx.thorough and c["seed"] is not None:
                    continue  # quick: the levels vectors with the seed unset only (value-axis reduction)
            if c["d"] == 1 and c["types"] == "mixed":
                tally.count("not-enumerated:mixed-types-with-a-single-variable")
                continue
            if not info["seed_setting"]:
                tally.count("not-enumerated:seed-values-of-algorithms-without-seed-setting", len(ax["seed"]) - 1)
            xproc = c["entry"] == "compute_doe" and c["layout"] == "asym" and c["types"] == ("mixed" if c["d"] > 1 else "integer")
            yield {"algo": algo, **c, "table": table, "info": info, "xproc": xproc}


# ------------------------------------------------------------------------------------------------------------------
# second process
# ------------------------------------------------------------------------------------------------------------------
def _child(infile: str, outfile: str) -> None:
    """Entry point of the second interpreter: recompute the digests of the listed cases."""
    import logging
    import warnings

    logging.disable(logging.CRITICAL)
    warnings.filterwarnings("ignore")
    cases = json.loads(Path(infile).read_text())
    import gemseo

    out = {"gemseo": gemseo.__file__, "pid": os.getpid(), "digests": []}
    scratch = os.path.dirname(outfile)
    for case in cases:
        ds, lb, ub, ints = make_space(case["d"], case["layout"], case["types"], case["table"])
        try:
            settings, _ = settings_for(case, lb, ub, ints, scratch)
            _, samples, _, _ = call(case["algo"], ds, settings, case["entry"])
            out["digests"].append(digest_of(np.asarray(samples)))
        except Exception as e:  # reported by the parent as a mismatch
            out["digests"].append(f"raised {type(e).__name__}: {str(e)[:100]}")
    Path(outfile).write_text(json.dumps(out))


def second_process(pairs: list, infos: dict, scratch: str, jobs: int) -> tuple[list, dict]:
    """Recompute ``pairs`` = [(case, digest)] in fresh interpreters; returns (mismatches, info)."""
    repo_src = os.environ.get("VERIF_REPO_SRC", "/repo/src")
    env = dict(os.environ)
    env["PYTHONPATH"] = os.pathsep.join([repo_src, str(ROOT), str(ROOT / "vendor")])
    env["PYTHONHASHSEED"] = "12345"  # a second process is free to use another hash seed
    n_shards = max(1, min(jobs, 8, len(pairs)))
    shards = [pairs[i::n_shards] for i in range(n_shards)]
    procs = []
    for i, shard in enumerate(shards):
        fin, fout = os.path.join(scratch, f"xproc_in_{i}.json"), os.path.join(scratch, f"xproc_out_{i}.json")
        Path(fin).write_text(json.dumps([{**c, "info": infos[c["algo"]]} for c, _ in shard]))
        code = "import props.c14 as m, sys; m._child(sys.argv[1], sys.argv[2])"
        procs.append((shard, fout, subprocess.Popen([sys.executable, "-c", code, fin, fout], env=env, cwd=str(ROOT), stdout=subprocess.DEVNULL, stderr=subprocess.PIPE)))
    mismatches, meta = [], {"processes": n_shards, "cases": len(pairs)}
    for shard, fout, p in procs:
        _, err = p.communicate()
        if p.returncode != 0 or not os.path.exists(fout):
            mismatches.append((shard[0][0], f"the second process failed (exit {p.returncode}): {err.decode(errors='replace')[-400:]}", "harness-error"))
            continue
        out = json.loads(Path(fout).read_text())
        meta["gemseo_in_second_process"] = out["gemseo"]
        for (case, dig), dig2 in zip(shard, out["digests"]):
            if dig != dig2:
                mismatches.append((case, f"digest of the samples in this process {dig}, in a second interpreter process {dig2}", "determinism-second-process"))
    rank = {json.dumps(c, sort_keys=True): i for i, (c, _) in enumerate(pairs)}
    mismatches.sort(key=lambda m: rank.get(json.dumps(m[0], sort_keys=True), -1))  # simplest first, as enumerated
    return mismatches, meta


# ------------------------------------------------------------------------------------------------------------------
def run(ctx):
    global SCRATCH
    SCRATCH = ctx.scratch
    table = ctx.seed % len(TABLES)
    tally = ctx.tally
    algorithms = list(factory().algorithms)
    infos = {a: algo_info(a) for a in algorithms}
    tally.notes["algorithms"] = algorithms
    tally.notes["oracle_table"] = infos
    tally.notes["value_table"] = table

    cases = list(enumerate_cases(ctx, table, infos, tally))
    hcases = list(history_cases(ctx, table, infos, tally))
    pmap(run_case, cases + hcases, tally, jobs=ctx.jobs, chunk=40, timeout=300)

    # an algorithm whose every case was refused is a vacuous line of the product
    for a in algorithms:
        if getattr(ctx, "only", None) and ctx.only not in a:
            continue
        if not tally.counters.get(f"history-executed:{a}"):
            tally.violation({"invariant": "no-executable-case", "algorithm": a, "layout": "history"}, {"algo": a}, f"every history case of {a} was refused by the library: nothing was checked for it")
        if not tally.counters.get(f"executed:{a}"):
            tally.violation({"invariant": "no-executable-case", "algorithm": a, "layout": "any"}, {"algo": a}, f"every enumerated case of {a} was refused by the library: nothing was checked for it")

    # second process
    order = {a: i for i, a in enumerate(algorithms)}
    pairs = [(json.loads(c), dg) for c, dg in tally.sets.get("xproc", ())]
    pairs.sort(key=lambda p: (order[p[0]["algo"]], p[0]["d"], str(p[0]["seed"]), p[0]["size"]))
    xmeta = {}
    if pairs:
        mismatches, xmeta = second_process(pairs, infos, ctx.scratch, ctx.jobs)
        tally.count("second-process-cases", len(pairs))
        for case, msg, inv in mismatches:
            tally.violation(signature(inv, case) if "layout" in case else {"invariant": inv, "algorithm": case["algo"], "layout": "any"}, case, f"{inv}: {case['algo']} size={case.get('size')} d={case.get('d')} seed={case.get('seed')}\n{msg}")
    tally.notes["second_process"] = xmeta

    executed = sum(v for k, v in tally.counters.items() if k.startswith("executed:"))
    skipped = sum(v for k, v in tally.counters.items() if k.startswith("skipped:"))
    return {
        "level": LEVEL,
        "rule": "(a) full product algorithm x dimension x bound layout x types x size parameter x seed x entry point; (b) history "
        "product algorithm x dimension x space x first step x single bound edit x edited variable x entry point on ONE design "
        "space object, non-trivial when the second DOE executed and a first step preceded the edit; for (a) a case is "
        "non-trivial when the library produced samples (not refused) and the layout is not the unit cube or an integer "
        "component is present (so that the affine map / rounding is not the identity); each executed case runs the DOE "
        "2 to 4 times (fresh instance; second fresh instance starting from the other value of the integer-normalization "
        "switch; same instance again when the seed is explicit; unit sampling for compute_doe)",
        "exhaustive": True,
        "bounds": {
            "algorithms": len(algorithms),
            "dimensions": DIMS,
            "layouts": LAYOUTS,
            "types": TYPES,
            "seeds": ["unset" if v is None else v for v in axes_for(ctx)["seed"]],
            "entries": ENTRIES,
            "sizes": {a: [z for z in sizes_of(a, infos[a]) if ctx.thorough or quick_size(a, z)] for a in algorithms},
            "cases": len(cases),
            "executed": executed,
            "refused_by_the_library": skipped,
            "second_process_cases": len(pairs),
            "history": {
                "cases": len(hcases),
                "executed": tally.counters.get("history:executed", 0),
                "refused_by_the_library": tally.counters.get("history:refused-by-the-library", 0),
                "dimensions": [1, 2, 3] if ctx.thorough else [1, 2],
                "spaces": H_SPACES,
                "edits": H_EDITS if ctx.thorough else H_EDITS[:5],
                "orders": H_ORDERS if ctx.thorough else [o for o in H_ORDERS if o != "execute,edit,doe"],
                "edited_variable": ["last", "first"] if ctx.thorough else ["last"],
                "second_entry": ENTRIES,
            },
        },
        "caps": {"PoissonDisk": "dimension 5 uses radius=0.25 (the default radius 0.05 costs ~28 s and several GB per call in SciPy)"},
        "assumptions": [
            f"value alphabet: bound table {table} of {len(TABLES)} (rotated by VERIF_SEED); integer variables have integral bounds",
            "bounds clause held for the algorithms designed to fill the domain only (see oracle_table; OT_SOBOL_INDICES, OATDOE, PYDOE_CCDESIGN circumscribed are counted, not held)",
            "the seed axis collapses to 'unset' for algorithms without a seed setting; a single variable cannot be 'mixed'",
            "cases refused by the library's own errors (ValueError/ValidationError, pyDOE AssertionError, OpenTURNS TypeError) are counted per algorithm and error class",
        ],
    }


def replay(case, ctx):
    global SCRATCH
    SCRATCH = ctx.scratch
    case = dict(case)
    if "size" not in case:
        return {"violations": [], "note": "summary record (no executable case)", "case": case}
    case["info"] = algo_info(case["algo"])
    if case.get("kind") == "history":
        res = check_history(case, ctx.scratch)
        return {"case": {k: v for k, v in case.items() if k != "info"}, "outcome": res["outcome"], "observed": res["obs"], "violations": [{"invariant": i, "message": m} for i, m in res["violations"]]}
    res = check_case(case, ctx.scratch)
    out = {"case": {k: v for k, v in case.items() if k != "info"}, "outcome": res["outcome"], "observed": res["obs"], "violations": [{"invariant": i, "message": m} for i, m in res["violations"]]}
    if case.get("xproc") and res["digest"]:
        mism, meta = second_process([({k: v for k, v in case.items() if k != "info"}, res["digest"])], {case["algo"]: case["info"]}, ctx.scratch, 1)
        out["second_process"] = meta
        out["violations"] += [{"invariant": inv, "message": msg} for _, msg, inv in mism]
    return out
