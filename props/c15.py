"""C15 - grammars stay well-formed under edits and validate exactly their definition (engine E1).

Explicit-state BFS over histories of grammar edits and read-only queries.  One history drives a real
``JSONGrammar`` (primary), a ``SimpleGrammar`` and a ``PydanticGrammar`` (followers, for the operations whose
meaning they share; a follower is dropped - never guessed - from the first operation it does not share) and
an independent reference definition kept by the harness (``Model``: name -> set of type atoms, required
names, defaults, updated by each operation according to its documented semantics).

Oracles, evaluated in every state (after the canonical state has been recorded, so the oracle's own queries
never leak into the explored state):

* S1 ``required_names <= keys``; S2 ``defaults.keys() <= keys``; S3 the two namespace maps mirror each other;
* M1-M3 keys / required names / defaults equal the reference definition (M4: ``add_namespace`` registers the
  new name in both maps);
* J1 ``JSONGrammar.schema`` (cached) and J2 ``to_json()`` carry exactly the current elements and required names;
* V1 ``validate(d)`` accepts iff the reference definition accepts (all classes), V2 iff the vendored
  ``jsonschema`` validator accepts gemseo-independent cast of d against ``json.loads(g.to_json())`` (JSON),
  V3 JSON and Simple verdicts agree on data on which both type systems are comparable;
* Q1 a read-only query (validate / schema / to_json / keys / to_simple_grammar / repr) leaves the definition
  and an already filled schema cache unchanged;
* A1 editing a copy never changes the original (and vice versa: the copy behaves as a grammar of its own);
  A2 ``update(other)`` and later edits never change ``other``: the source is offered in every cache state (fresh,
  schema read, validated once); its canonical state incl. the (deep) cached schema dict is compared before/after
  the update, and its *uses* after the update (verdicts on its data alphabet, ``schema``, ``to_json()``,
  ``to_simple_grammar()``, a pickle round-trip and the verdicts of the restored grammar) are compared with those of
  a twin source in the same cache state that was never passed to ``update``;
  A3 pickling never changes the pickled grammar;
* R1 operations on names that are not in the grammar are refused (KeyError / ValueError) by every class;
* E1 a legal operation does not raise.

Oracle boundaries (cases the statement leaves open are removed or every reading is accepted):

* values on which JSON-Schema drafts disagree (integral floats against "integer", booleans) are not in the
  value alphabet; the reference verdict is only used when Draft-4 and the draft picked by ``validator_for``
  agree; 2-D arrays, lists and complex numbers (JSON and Simple type systems differ by design) are out;
* validated arrays have at least two components: a one-component array converts to a Python scalar and
  pydantic's strict ``float`` accepts it (third-party value semantics, not a grammar property);
* an ``int`` value against a ``float`` element: JSON "number" / pydantic accept, ``isinstance`` does not -
  modelled per class, excluded from V3;
* whether an element that is required in the grammar and optional in the source of ``update`` /
  ``update_from_schema`` stays required is not documented: the reference adopts the implementation's answer
  for that name at that step (``Model.open``);
* merging onto an untyped element, and schema fragments beyond the five plain types (enum, minimum, ...):
  type atom "opaque", no reference-definition verdict (the jsonschema reference still applies);
* stale entries of ``to_namespaced`` / ``from_namespaced`` after the namespaced element was deleted or renamed
  are made visible as the outcome class ``<op>:ns-entry-without-element``, not flagged: the statement only speaks of required names and
  defaults; fidelity of the *types* chosen by ``to_simple_grammar`` ("number" -> ``complex``) is not judged;
* renaming onto an existing name is undefined and not in the alphabet.
"""
from __future__ import annotations

import collections.abc
import json
import os
import pickle
from pathlib import Path

import numpy as np

from mc import explore

LEVEL = "model_checking"
J, S, P = "JSONGrammar", "SimpleGrammar", "PydanticGrammar"
CLASSES = (J, S, P)
NS = "A"
DRAFT4 = "http://json-schema.org/draft-04/schema"

# (a, b, c, rename target): arrival order != sort order in tables 1 and 2
NAME_TABLES = [("x", "y", "n", "u"), ("b", "a", "c", "d"), ("k2", "k10", "k1", "k0")]
VALUE_TABLES = [
    {"arr": [1.0, 2.0], "arr1": [3.0], "i": 3, "f": 2.5, "s": "s"},
    {"arr": [0.0, -2.0], "arr1": [-1.0, 0.5], "i": 0, "f": -0.5, "s": ""},
    {"arr": [-1.5, 0.0, 2.0], "arr1": [7.0], "i": -7, "f": 1e-3, "s": "x y"},
]
DEEP_FILES = ("Discipline_options.json", "RosenMF_input.json", "SobieskiStructure_input.json", "PropaneComb1_output.json",
              "Mission_output.json", "SobieskiMission_output.json")
SOURCE_CACHE_STATES = ("fresh", "schema", "validated")
QUERIES = ("q_validate", "q_schema", "q_to_json", "q_keys", "q_to_simple", "q_repr")
CACHE_FILLERS = ("q_validate", "q_schema", "q_to_json", "q_to_simple", "copy", "pickle")
# operations a follower shares with the JSON grammar (everything else drops it)
NOT_SHARED = {
    S: {"from_schema", "from_file"},
    P: {"from_schema", "from_file", "req_add", "req_discard", "x_req_add"},
}

_CLS = {}


def _classes():
    if not _CLS:
        from gemseo.core.grammars.json_grammar import JSONGrammar
        from gemseo.core.grammars.pydantic_grammar import PydanticGrammar
        from gemseo.core.grammars.simple_grammar import SimpleGrammar

        _CLS.update({J: JSONGrammar, S: SimpleGrammar, P: PydanticGrammar})
    return _CLS


def _repo_src() -> Path:
    import gemseo

    return Path(gemseo.__file__).resolve().parent


def shipped_files() -> list[str]:
    root = _repo_src()
    return sorted(str(p.relative_to(root)) for p in root.rglob("*.json"))


# ------------------------------------------------------------------------------------------------------
# values
# ------------------------------------------------------------------------------------------------------
def _value(values: dict, tok):
    if tok in ("arr", "arr1"):
        return np.array(values[tok], dtype=float)
    if tok in ("i", "f", "s"):
        return values[tok]
    if tok == "map":
        return {"k": 1}
    if tok == "dflt":
        return "dflt"
    raise ValueError(tok)


def _kind(v) -> str:
    if isinstance(v, np.ndarray):
        return "arr"
    if isinstance(v, bool):
        return "bool"
    if isinstance(v, int):
        return "int"
    if isinstance(v, float):
        return "float"
    if isinstance(v, str):
        return "str"
    if isinstance(v, collections.abc.Mapping):
        return "map"
    return "other"


def _cast(v):
    """Harness-owned conversion of a data value to JSON (independent of JSONGrammar's private cast)."""
    if isinstance(v, np.ndarray):
        return v.tolist()
    if isinstance(v, collections.abc.Mapping):
        return {k: _cast(x) for k, x in v.items()}
    return v


def _tok(v) -> str:
    return f"{_kind(v)}:{_cast(v)!r}"


PYTYPES = {"ndarray": np.ndarray, "int": int, "float": float, "str": str, "none": None}
TYPE_ATOM = {"ndarray": "anyarray", "int": "int", "float": "float", "str": "str", "none": "any"}
KIND_ATOM = {"arr": "numarray", "int": "int", "float": "float", "str": "str"}
NUMARRAY = {"type": "array", "items": {"type": "number"}}


def atoms_of_fragment(fr: dict) -> frozenset:
    fr = {k: v for k, v in fr.items() if k != "description"}
    table = [({}, "any"), ({"type": "integer"}, "int"), ({"type": "number"}, "float"), ({"type": "string"}, "str"),
             ({"type": "array"}, "anyarray"), (NUMARRAY, "numarray")]
    for pat, atom in table:
        if fr == pat:
            return frozenset([atom])
    return frozenset(["opaque:" + json.dumps(fr, sort_keys=True)])


def atom_accepts(cls: str, atom: str, kind: str):
    if atom == "any":
        return True
    if atom.startswith("opaque"):
        return None
    if atom in ("numarray", "anyarray"):
        return kind == "arr"
    if atom == "int":
        return kind == "int"
    if atom == "float":
        return kind == "float" or (kind == "int" and cls != S)
    if atom == "str":
        return kind == "str"
    raise ValueError(atom)


def elem_accepts(cls, atoms, kind):
    res = [atom_accepts(cls, a, kind) for a in atoms]
    if any(r is True for r in res):
        return True
    if any(r is None for r in res):
        return None
    return False


def sample_of_fragment(fr: dict):
    """A value meant to satisfy an opaque fragment of a shipped schema (None when the harness cannot tell)."""
    if "enum" in fr:
        return fr["enum"][0]
    t = fr.get("type")
    if t == "string":
        # "format" is an optional assertion (jsonschema ignores it, fastjsonschema enforces it): satisfy it
        return {"uri": "file:///tmp/cache.h5"}.get(fr.get("format"), "s") if "format" in fr else "s"
    if t == "boolean":
        return True
    if t in ("number", "integer"):
        lo = fr.get("minimum")
        base = 3 if t == "integer" else 1.5
        return base if lo is None else (int(lo) + 2 if t == "integer" else float(lo) + 1.5)
    if t == "array":
        n = max(int(fr.get("minItems", 1)), 1)
        sub = fr.get("items", {"type": "number"})
        item = sample_of_fragment(sub) if isinstance(sub, dict) else None
        if item is None or isinstance(item, (str, bool)):
            return None
        return np.array([float(item)] * n)
    if t == "object":
        return {}
    return None


# ------------------------------------------------------------------------------------------------------
# the reference definition
# ------------------------------------------------------------------------------------------------------
class Model:
    def __init__(self):
        self.elems: dict[str, frozenset] = {}
        self.req: set[str] = set()
        self.defaults: dict[str, str] = {}
        self.ns: dict[str, str] = {}  # expectations created by add_namespace: name -> namespaced name
        self.open: set[str] = set()  # requiredness to be adopted from the implementation (oracle boundary)

    def copy(self):
        m = Model()
        m.elems, m.req, m.defaults, m.ns = dict(self.elems), set(self.req), dict(self.defaults), dict(self.ns)
        return m

    def _set(self, name, atoms, merge):
        atoms = frozenset(atoms)
        if merge and name in self.elems:
            old = self.elems[name]
            if "any" in old or "any" in atoms or any(a.startswith("opaque") for a in old | atoms):
                # merging onto an untyped / non-plain element: left open
                atoms = frozenset(["opaque:merged"]) if old != atoms else old
            else:
                atoms = old | atoms
        self.elems[name] = atoms

    def update_elems(self, items: dict, required, merge, optional_open=True):
        for n, atoms in items.items():
            if optional_open and n in self.req and n not in required:
                self.open.add(n)
            self._set(n, atoms, merge)
        self.req |= set(required)

    def update_from(self, other: "Model", excluded, merge):
        items = {n: a for n, a in other.elems.items() if n not in excluded}
        self.update_elems(items, {n for n in other.req if n not in excluded}, merge)
        for n, t in other.defaults.items():
            if n not in excluded:
                self.defaults[n] = t

    def restrict(self, names):
        for n in list(self.elems):
            if n not in names:
                self.delete(n)

    def delete(self, n):
        del self.elems[n]
        self.req.discard(n)
        self.defaults.pop(n, None)

    def rename(self, cur, new):
        self.elems[new] = self.elems.pop(cur)
        if cur in self.req:
            self.req.discard(cur)
            self.req.add(new)
        if cur in self.defaults:
            self.defaults[new] = self.defaults.pop(cur)

    def verdict(self, cls, data: dict):
        """True / False / None (undetermined by the reference definition)."""
        if not self.req <= set(data):
            return False
        unknown = False
        for n, v in data.items():
            if n in self.elems:
                r = elem_accepts(cls, self.elems[n], _kind(v))
                if r is False:
                    return False
                if r is None:
                    unknown = True
        return None if unknown else True


# ------------------------------------------------------------------------------------------------------
# canonical forms
# ------------------------------------------------------------------------------------------------------
def _ns_canon(m):
    return tuple(sorted((k, repr(v)) for k, v in m.items()))


def canon_of(cls: str, g) -> tuple:
    """(definition, caches): property-relevant fields incl. hidden caches read through mangled names."""
    d = g.__dict__
    common = (
        tuple(sorted(g.required_names)),
        tuple(sorted((k, _tok(v)) for k, v in g.defaults.items())),
        _ns_canon(g.to_namespaced),
        _ns_canon(g.from_namespaced),
    )
    if cls == J:
        b = d["_JSONGrammar__schema_builder"]
        sch = b.to_schema()
        sch.pop("required", None)
        definition = (json.dumps(sch, sort_keys=True), tuple(sorted(b.required)), *common)
        cached = d["_JSONGrammar__schema"]
        caches = (json.dumps(cached, sort_keys=True, default=str) if cached else None, d["_JSONGrammar__validator"] is not None)
    elif cls == S:
        n2t = d["_SimpleGrammar__names_to_types"]
        definition = (tuple(sorted((k, getattr(t, "__name__", repr(t))) for k, t in n2t.items())), *common)
        caches = ()
    else:
        fields = d["_PydanticGrammar__model"].model_fields
        definition = (tuple(sorted((k, repr(f.annotation)) for k, f in fields.items())), *common)
        caches = (d["_PydanticGrammar__model_needs_rebuild"],)
    return (definition, caches)


# ------------------------------------------------------------------------------------------------------
# state
# ------------------------------------------------------------------------------------------------------
class St:
    def __init__(self, names, values, universe):
        self.names = tuple(names)
        self.values = values
        self.universe = list(universe)
        self.gs: dict = {}
        self.model = Model()
        self.shadows: list = []  # (label, cls, grammar, canon at creation)
        self.dropped: dict = {}
        self.is_copy = False
        self.last: dict = {}
        self.canon_ = None

    def alive(self):
        return [(c, self.gs[c]) for c in CLASSES if self.gs.get(c) is not None]


def _schemas(names):
    a, b, c, _ = names
    s1 = {"$schema": DRAFT4, "type": "object", "properties": {a: {"type": "integer"}, c: {"type": "string"}}, "required": [a]}
    s2 = {"name": "S2", "id": "#S2", "$schema": DRAFT4, "type": "object",
          "properties": {b: dict(NUMARRAY), c: {"type": "number"}}, "required": [b, c]}
    return {"S1": s1, "S2": s2}


def _other_ops(kind, names):
    a, b, c, _ = names
    if kind == "oD":
        return [["names", [a, b], False], ["req_discard", b], ["default", b, "arr1"]]
    if kind == "oT":
        return [["types", {a: "int", c: "str"}, False], ["req_discard", c]]
    if kind == "oN":
        return [["names", [a], False], ["ns", a]]
    raise ValueError(kind)


class Spec:
    def __init__(self, names, values, scratch, starts):
        self.names = tuple(names)
        self.values = values
        self.scratch = str(scratch)
        self._starts = starts
        self._files = {}

    # -- start states ----------------------------------------------------------------------------
    def starts(self):
        return [list(s) for s in self._starts]

    def _start(self, tok) -> St:
        cls = _classes()
        if tok[1] == "empty":
            names = tuple(tok[2]["names"])
            a, b, c, r = names
            st = St(names, tok[2]["values"], [a, b, c, r, f"{NS}:{a}", f"{NS}:{b}"])
            for c_ in CLASSES:
                st.gs[c_] = cls[c_]("g")
            return st
        if tok[1] == "pmodel":
            # a user-supplied pydantic model: an element is required exactly when its field has no default
            from pydantic import create_model

            from gemseo.utils.pydantic_ndarray import NDArrayPydantic

            names = tuple(tok[2]["names"])
            a, b, c, r = names
            values = tok[2]["values"]
            user_model = create_model("UserModel", **{a: (NDArrayPydantic, ...), b: (int, values["i"]), c: (str, ...)})
            st = St(names, values, [a, b, c, r, f"{NS}:{a}", f"{NS}:{b}"])
            st.user_model = True
            st.gs[P] = cls[P]("g", model=user_model)
            st.model.update_elems({a: ["anyarray"], b: ["int"], c: ["str"]}, [a, c], False)
            st.model.defaults[b] = _tok(values["i"])
            return st
        if tok[1] == "file":
            rel = tok[2]
            path = _repo_src() / rel
            schema = json.loads(path.read_text())
            props = list(schema.get("properties", {}))
            fresh = ["zz_b", "zz_c", "zz_r"]
            a = props[0]
            b = props[1] if len(props) > 1 else fresh[0]
            c = props[-1] if len(props) > 2 else fresh[1]
            st = St((a, b, c, fresh[2]), tok[3], [*props[:6], *fresh, f"{NS}:{a}", f"{NS}:{b}"])
            st.gs[J] = cls[J]("g", file_path=path)
            st.model.update_elems({n: atoms_of_fragment(f) for n, f in schema.get("properties", {}).items()}, schema.get("required", []), False)
            st.fragments = dict(schema.get("properties", {}))
            return st
        raise ValueError(tok)

    def build(self, hist):
        st = self._start(hist[0])
        st.canon_ = self._canon(st)
        for op in hist[1:]:
            self.apply(st, op)
        return st

    # -- alphabet --------------------------------------------------------------------------------
    def enabled(self, st, hist):
        a, b, c, r = st.names
        m = st.model
        E = m.elems
        ops = [["names", [a], False], ["names", [b, c], False]]
        ops += [["types", {a: "int"}, False], ["types", {b: "float", c: "str"}, False], ["types", {b: "none"}, False], ["types", {c: "ndarray"}, False]]
        ops += [["data", {c: "arr"}, False], ["data", {c: "s", a: "f"}, False]]
        if a in E:
            ops += [["names", [a], True], ["types", {a: "float"}, True], ["data", {a: "arr"}, True]]
        for cs in SOURCE_CACHE_STATES:
            ops += [["update", "oD", False, [], cs], ["update", "oD", False, [b], cs], ["update", "oT", False, [a], cs], ["update", "oT", True, [], cs], ["update", "oN", False, [], cs]]
        ops += [["from_schema", "S1", False], ["from_schema", "S1", True], ["from_file", "S2", False]]
        present = [n for n in st.universe if n in E] + [n for n in E if n not in st.universe]
        missing = next((n for n in st.universe if n not in E), None)
        if len(present) > 1:
            ops += [["restrict", present[:1]], ["restrict", present[1:]]]
        if a in E and r not in E:
            ops.append(["rename", a, r])
        if b in E and a not in E:
            ops.append(["rename", b, a])
        for n in (a, c, f"{NS}:{a}"):
            if n in E:
                ops.append(["del", n])
        for n in (a, b):
            if n in E and ":" not in n and f"{NS}:{n}" not in E:
                ops.append(["ns", n])
        ops += [["clear"], ["copy"], ["pickle"]]
        if b in E:
            ops.append(["req_add", b])
        for n in (a, c):
            if n in E:
                ops.append(["req_discard", n])
        if a in E:
            ops.append(["default", a, "arr1"])
        if c in E:
            ops.append(["default", c, "dflt"])
        if a in E:
            ops.append(["descriptions", {a: "text"}])
        ops += [["q_validate", "ok"], ["q_validate", "bad"], ["q_schema"], ["q_to_json"], ["q_keys"], ["q_to_simple"], ["q_repr"]]
        # operations that every class must refuse
        if missing is not None:
            ops += [["x_req_add", missing], ["x_default", missing], ["x_del", missing]]
            if present:
                ops.append(["x_restrict", [present[0], missing]])
        if f"{NS}:{a}" in E:
            ops.append(["x_ns", f"{NS}:{a}"])
        # an operation must be shared by at least one grammar that is still driven
        ops = [op for op in ops if any(self._shares(c_, op, st) for c_, _ in st.alive())]
        if getattr(st, "user_model", False):
            # boundary: a user model class is shared by copies by design and is pickled by reference
            # (it must be importable), neither says anything about the grammar
            ops = [op for op in ops if op[0] not in ("copy", "pickle")]
        return ops

    def _shares(self, cls, op, st):
        return not (op[0] in NOT_SHARED.get(cls, ()) or self._not_shared(cls, op, st))

    # -- transitions -----------------------------------------------------------------------------
    def _file(self, key, names):
        k = (key, names)
        if k not in self._files:
            p = Path(self.scratch) / f"{key}_{abs(hash(names)) % 10**8}_{os.getpid()}.json"
            p.write_text(json.dumps(_schemas(names)[key]))
            self._files[k] = str(p)
        return self._files[k]

    def _other(self, cls, kind, st, cache_state="fresh"):
        g = _classes()[cls]("o")
        m = Model()
        for op in _other_ops(kind, st.names):
            g = self._do(cls, g, op, st, None)
            self._model_do(m, op, st)
        if cache_state == "schema" and cls == J:
            g.schema  # noqa: B018
        elif cache_state == "validated":
            g.validate(_valid_data(_View(m, st)), raise_exception=False)
        return g, m

    def _do(self, cls, g, op, st, info):
        """Perform ``op`` on one real grammar; returns the grammar to continue with."""
        k = op[0]
        val = lambda t: _value(st.values, t)  # noqa: E731
        if k == "names":
            g.update_from_names(list(op[1]), merge=op[2])
        elif k == "types":
            g.update_from_types({n: PYTYPES[t] for n, t in op[1].items()}, merge=op[2])
        elif k == "data":
            g.update_from_data({n: val(t) for n, t in op[1].items()}, merge=op[2])
        elif k == "update":
            cs = op[4] if len(op) > 4 else "fresh"
            other, om = self._other(cls, op[1], st, cs)
            if info is not None:
                info["other"] = other
                info["source"] = {"model": om, "cache_state": cs, "kind": op[1], "pre": canon_of(cls, other)}
            g.update(other, excluded_names=list(op[3]), merge=op[2])
            if info is not None:
                info["source"]["post"] = canon_of(cls, other)
        elif k == "from_schema":
            g.update_from_schema(json.loads(json.dumps(_schemas(st.names)[op[1]])), merge=op[2])
        elif k == "from_file":
            g.update_from_file(self._file(op[1], st.names), merge=op[2])
        elif k in ("restrict", "x_restrict"):
            g.restrict_to(list(op[1]))
        elif k in ("rename",):
            g.rename_element(op[1], op[2])
        elif k in ("del", "x_del"):
            del g[op[1]]
        elif k in ("ns", "x_ns"):
            g.add_namespace(op[1], NS)
        elif k == "clear":
            g.clear()
        elif k == "copy":
            new = g.copy()
            if info is not None:
                info["source"] = g
            g = new
        elif k == "pickle":
            before = canon_of(cls, g)[0]
            blob = pickle.dumps(g)
            if info is not None and canon_of(cls, g)[0] != before:
                info["pickle_changed_source"] = (before, canon_of(cls, g)[0])
            g = pickle.loads(blob)
        elif k in ("req_add", "x_req_add"):
            g.required_names.add(op[1])
        elif k == "req_discard":
            g.required_names.discard(op[1])
        elif k in ("default", "x_default"):
            g.defaults[op[1]] = val(op[2]) if len(op) > 2 else 1
        elif k == "descriptions":
            if cls == J:  # only JSON schemas carry descriptions in the definition; never changes what is accepted
                g.set_descriptions(dict(op[1]))
        elif k == "q_validate":
            g.validate(self._query_data(st, op[1]), raise_exception=False)
        elif k == "q_schema":
            if cls == J:  # PydanticGrammar.schema is pydantic's own export: not a shared meaning
                g.schema  # noqa: B018
        elif k == "q_to_json":
            if cls == J:
                g.to_json()
                path = Path(self.scratch) / f"to_file_{os.getpid()}.json"
                g.to_file(path)
                if info is not None:
                    info["to_file"] = json.loads(path.read_text())
        elif k == "q_keys":
            list(g.keys()), list(g.names), list(g.names_without_namespace), g.has_names(["nope"]), len(g), [g[n] for n in g]
        elif k == "q_to_simple":
            s = g.to_simple_grammar()
            if info is not None:
                info["simple"] = s
        elif k == "q_repr":
            repr(g), str(g), g._repr_html_()
        else:
            raise ValueError(op)
        return g

    def _query_data(self, st, flavour):
        valid = _valid_data(st)
        if flavour == "ok":
            return valid
        return {n: {"k": 1} for n in st.model.elems}

    def _model_do(self, m: Model, op, st):
        k = op[0]
        if k == "names":
            m.update_elems({n: ["numarray"] for n in op[1]}, op[1], op[2], optional_open=False)
        elif k == "types":
            m.update_elems({n: [TYPE_ATOM[t]] for n, t in op[1].items()}, list(op[1]), op[2], optional_open=False)
        elif k == "data":
            m.update_elems({n: [KIND_ATOM[_kind(_value(st.values, t))]] for n, t in op[1].items()}, list(op[1]), op[2], optional_open=False)
        elif k == "update":
            om = Model()
            for o in _other_ops(op[1], st.names):
                self._model_do(om, o, st)
            m.update_from(om, set(op[3]), op[2])
        elif k in ("from_schema", "from_file"):
            sch = _schemas(st.names)[op[1]]
            m.update_elems({n: atoms_of_fragment(f) for n, f in sch["properties"].items()}, sch.get("required", []), op[2])
        elif k == "restrict":
            m.restrict(set(op[1]))
        elif k == "rename":
            m.rename(op[1], op[2])
        elif k == "del":
            m.delete(op[1])
        elif k == "ns":
            new = f"{NS}:{op[1]}"
            m.rename(op[1], new)
            m.ns[op[1]] = new
        elif k == "clear":
            m.elems.clear(), m.req.clear(), m.defaults.clear(), m.ns.clear()
        elif k == "req_add":
            m.req.add(op[1])
        elif k == "req_discard":
            m.req.discard(op[1])
        elif k == "default":
            m.defaults[op[1]] = _tok(_value(st.values, op[2]))
        # copy, pickle, queries, refused operations: the definition is unchanged

    def apply(self, st: St, op):
        k = op[0]
        last = {"before": {}, "raised": {}, "refused": {}, "info": {}, "dropped_now": [], "not_refused": []}
        expect_refusal = k.startswith("x_")
        primary = st.alive()[0][0]
        for cls, g in st.alive():
            if not self._shares(cls, op, st):
                st.gs[cls] = None
                st.dropped[cls] = k
                last["dropped_now"].append(cls)
                continue
            last["before"][cls] = canon_of(cls, g)
            info = last["info"].setdefault(cls, {})
            try:
                new = self._do(cls, g, op, st, info)
            except Exception as e:  # noqa: BLE001
                if expect_refusal and isinstance(e, (KeyError, ValueError)):
                    last["refused"][cls] = type(e).__name__
                else:
                    last["raised"][cls] = f"{type(e).__name__}: {str(e)[:200]}"
                continue
            if expect_refusal:
                last["not_refused"].append(cls)
            st.gs[cls] = new
            if k == "copy":
                st.shadows.append(("copy-source", cls, info.pop("source"), None))
            if k == "update" and "other" in info:
                st.shadows.append((f"update-source:{op[1]}:{info['source']['cache_state']}", cls, info["other"], info["source"]["post"]))
        if k == "copy":
            st.is_copy = True
        # the reference definition follows the primary; an unexpected exception of the primary freezes it
        if not expect_refusal and primary not in last["raised"]:
            self._model_do(st.model, op, st)
            if st.model.open:
                req = set(st.gs[primary].required_names)
                for n in st.model.open:
                    (st.model.req.add if n in req else st.model.req.discard)(n)
                last["pinned"] = sorted(st.model.open)
                st.model.open = set()
        # followers that raised where the primary did not are reported once, then dropped
        for cls in list(last["raised"]):
            if cls != primary:
                st.gs[cls] = None
                st.dropped[cls] = f"raised:{k}"
        # shadows: record the canon at creation
        st.shadows = [(lab, c, g, canon_of(c, g) if cn is None else cn) for lab, c, g, cn in st.shadows]
        st.last = last
        st.spec = self
        st.canon_ = self._canon(st)
        stale = any(n not in g for _, g in st.alive() for n in g.from_namespaced)
        last["stale_ns_entries"] = stale
        if last["raised"]:
            return "raised:" + ",".join(f"{c[:1]}:{v.split(':')[0]}" for c, v in sorted(last["raised"].items()))
        if expect_refusal:
            return "refused" if not last["not_refused"] else "not-refused"
        return "ns-entry-without-element" if stale else None

    def _not_shared(self, cls, op, st):
        k = op[0]
        if cls == S:
            return k in ("names", "types", "data", "update") and bool(op[2])  # merge is documented as unsupported
        if cls == P:
            if k == "types" and "none" in op[1].values():
                return True  # None is NoneType for pydantic, not "any"
            if k == "update" and op[1] != "oN":
                return True  # optional elements need model defaults: not a shared meaning
        return False

    # -- canonical state -------------------------------------------------------------------------
    def _canon(self, st):
        return (
            tuple((c, canon_of(c, g)) for c, g in st.alive()),
            tuple(sorted(st.dropped)),
            # the cache state in which an update source was offered is probed at the update itself (check_state) and
            # is not a reason to keep successor states apart: histories continue from the first (fresh) variant
            tuple(
                (lab.rsplit(":", 1)[0], c, explore.digest((cn if cn is not None else canon_of(c, g))[0])) if lab.startswith("update-source")
                else (lab, c, explore.digest(cn if cn is not None else canon_of(c, g)))
                for lab, c, g, cn in st.shadows
            ),
            st.is_copy,
        )

    def canon(self, st):
        return st.canon_

    def nontrivial(self, hist):
        kinds = [op[0] for op in hist[1:]]
        for i, k in enumerate(kinds):
            if k in CACHE_FILLERS and any(not (x.startswith("q_")) for x in kinds[i + 1:]):
                return True
        return False

    # -- oracle ----------------------------------------------------------------------------------
    def check(self, st: St, hist):
        return [(sig, f"{msg}\n  history={json.dumps(hist)}") for sig, msg in check_state(st, hist[-1])]


class _View:
    """What the data generators need, for a grammar other than the explored one (an update source)."""

    def __init__(self, model, st):
        self.model, self.values, self.universe = model, st.values, st.universe


def _uses(cls, g, data) -> dict:
    """Everything a later user of ``g`` can see, in a fixed order (the validator is compiled first)."""
    out = {}

    def obs(key, fn):
        try:
            out[key] = fn()
        except Exception as e:  # noqa: BLE001
            out[key] = f"raised {type(e).__name__}: {str(e)[:120]}"

    obs("verdicts", lambda: [_verdict(g, d) for d in data])
    if cls == J:
        obs("schema", lambda: json.dumps(g.schema, sort_keys=True, default=str))
        obs("to_json", lambda: json.dumps(json.loads(g.to_json()), sort_keys=True))

    def simple():
        s_ = g.to_simple_grammar()
        return (sorted((n, getattr(t, "__name__", repr(t))) for n, t in s_.items()), sorted(s_.required_names), sorted((n, _tok(v)) for n, v in s_.defaults.items()))

    obs("to_simple_grammar", simple)

    def pickled():
        r = pickle.loads(pickle.dumps(g))
        return (canon_of(cls, r)[0], sorted(r.keys()), [_verdict(r, d) for d in data], json.dumps(json.loads(r.to_json()), sort_keys=True) if cls == J else None)

    obs("pickle-round-trip", pickled)
    obs("state-after-uses", lambda: canon_of(cls, g))
    return out


def _valid_data(st: St) -> dict:
    """One value per element that every class accepts according to the reference definition."""
    out = {}
    frags = getattr(st, "fragments", {})
    for n, atoms in st.model.elems.items():
        for tok in ("arr", "f", "i", "s"):
            v = _value(st.values, tok)
            if all(elem_accepts(c, atoms, _kind(v)) is True for c in CLASSES):
                out[n] = v
                break
        else:
            opaque = [a for a in atoms if a.startswith("opaque:{")]
            fr = json.loads(opaque[0][7:]) if opaque else frags.get(n)
            v = sample_of_fragment(fr) if isinstance(fr, dict) else None
            if v is not None:
                out[n] = v
    return out


def gen_data(st: St) -> list[dict]:
    m = st.model
    valid = _valid_data(st)
    data = [{}, dict(valid)]
    for n in m.elems:
        if n in valid:
            data.append({k: v for k, v in valid.items() if k != n})
    for n in m.elems:
        for tok in ("arr", "i", "f", "s", "map"):
            v = _value(st.values, tok)
            if n in valid and _kind(v) == _kind(valid[n]):
                continue
            data.append({**valid, n: v})
    for u in st.universe:
        if u not in m.elems:
            data.append({**valid, u: _value(st.values, "s")})
            data.append({**valid, u: _value(st.values, "arr")})
    data.append({n: v for n, v in valid.items() if n not in m.req})
    seen, out = set(), []
    for d in data:
        key = tuple(sorted((k, _tok(v)) for k, v in d.items()))
        if key not in seen:
            seen.add(key)
            out.append(d)
    return out


def _verdict(g, d) -> bool:
    from gemseo.core.grammars.errors import InvalidDataError

    try:
        g.validate(d)
    except InvalidDataError:
        return False
    return True


_REF = {}


def _reference(text: str):
    """Reference validators for a to_json() text: (Draft-4, the draft jsonschema itself would pick)."""
    r = _REF.get(text)
    if r is None:
        import jsonschema

        if len(_REF) > 20000:
            _REF.clear()
        schema = json.loads(text)
        d4 = jsonschema.Draft4Validator(schema)
        alt_cls = jsonschema.validators.validator_for(schema, default=jsonschema.Draft7Validator)
        alt = alt_cls(schema) if alt_cls is not jsonschema.Draft4Validator else None
        r = _REF[text] = (schema, d4, alt)
    return r


def _show(d):
    return "{" + ", ".join(f"{k!r}: {_cast(v)!r}" for k, v in d.items()) + "}"


def _mirror(to_ns, from_ns):
    def norm(v):
        return list(v) if isinstance(v, (list, tuple)) else [v]

    for k, v in to_ns.items():
        for x in norm(v):
            if k not in norm(from_ns.get(x, [])):
                return f"to_namespaced[{k!r}] -> {x!r} but from_namespaced[{x!r}] = {from_ns.get(x)!r}"
    for k, v in from_ns.items():
        for x in norm(v):
            if k not in norm(to_ns.get(x, [])):
                return f"from_namespaced[{k!r}] -> {x!r} but to_namespaced[{x!r}] = {to_ns.get(x)!r}"
    return None


def check_state(st: St, op) -> list:
    k = op[0]
    last = st.last
    m = st.model
    out = []
    add = lambda inv, cls, msg, **kw: out.append(({"invariant": inv, "op": k, "grammar": cls, **kw}, f"{inv} [{cls}] after {op}: {msg}"))  # noqa: E731

    # E1 / R1: exceptions and refusals
    for cls, err in last.get("raised", {}).items():
        inv = "E1-edit-on-copy-raises" if st.is_copy and not k.startswith("q_") and k != "copy" else "E1-legal-operation-raises"
        add(inv, cls, err, error=err.split(":")[0])
    for cls in last.get("not_refused", []):
        add("R1-missing-name-not-refused", cls, f"{op} was accepted although the name is not an element")
    # A3 pickling changes the source
    for cls, info in last.get("info", {}).items():
        if "pickle_changed_source" in info:
            b, a = info["pickle_changed_source"]
            add("A3-pickling-changes-source", cls, f"definition before={b} after={a}")

    # A1 / A2: shadows must keep their canonical state (definition and caches)
    for lab, cls, g, cn in st.shadows:
        now = canon_of(cls, g)
        if now != cn:
            inv = "A1-copy-changes-original" if lab == "copy-source" else "A2-update-changes-source"
            diff = [f"{x} -> {y}" for x, y in zip(_flat(cn), _flat(now)) if x != y]
            add(inv, cls, f"{lab}: " + "; ".join(diff)[:600])

    # Q1: queries are no-ops
    if k in QUERIES:
        for cls, g in st.alive():
            before = last["before"].get(cls)
            if before is None:
                continue
            after = st.canon_[0][[c for c, _ in st.canon_[0]].index(cls)][1]
            if before[0] != after[0]:
                diff = [f"{x} -> {y}" for x, y in zip(_flat(before[0]), _flat(after[0])) if x != y]
                add("Q1-query-changes-definition", cls, "; ".join(diff)[:600])
            elif cls == J and before[1][0] is not None and before[1][0] != after[1][0]:
                add("Q1-query-changes-cached-schema", cls, f"cached schema before={before[1][0]} after={after[1][0]}")
            elif cls == J and before[1][1] and not after[1][1]:
                add("Q1-query-drops-validator", cls, "validator was compiled before the query and is gone after")

    data = gen_data(st)
    got = {}
    stale_ns = 0
    for cls, g in st.alive():
        keys = set(g.keys())
        req = set(g.required_names)
        dfl = {n: _tok(v) for n, v in g.defaults.items()}
        # S1-S3
        if not req <= keys:
            add("S1-required-not-elements", cls, f"required_names={sorted(req)} keys={sorted(keys)}")
        if not set(dfl) <= keys:
            add("S2-defaults-not-elements", cls, f"defaults={sorted(dfl)} keys={sorted(keys)}")
        bad = _mirror(g.to_namespaced, g.from_namespaced)
        if bad:
            add("S3-namespace-maps-not-mirrored", cls, bad)
        stale_ns += sum(1 for n in g.from_namespaced if n not in keys)
        # M1-M4
        if keys != set(m.elems):
            add("M1-keys-vs-reference", cls, f"keys={sorted(keys)} reference={sorted(m.elems)}")
        elif req != m.req:
            add("M2-required-vs-reference", cls, f"required_names={sorted(req)} reference={sorted(m.req)}")
        if keys == set(m.elems) and dfl != m.defaults:
            add("M3-defaults-vs-reference", cls, f"defaults={dfl} reference={m.defaults}")
        if k == "ns" and cls not in last.get("raised", {}):
            new = m.ns.get(op[1])
            t, f = g.to_namespaced.get(op[1]), g.from_namespaced.get(new)
            if not (t == new or (isinstance(t, list) and new in t)) or not (f == op[1] or (isinstance(f, list) and op[1] in f)):
                add("M4-namespace-not-registered", cls, f"to_namespaced={g.to_namespaced} from_namespaced={g.from_namespaced}")
        if k == "q_to_simple" and "simple" in last["info"].get(cls, {}):
            s = last["info"][cls]["simple"]
            if set(s.keys()) != keys or set(s.required_names) != req or set(s.defaults) != set(dfl):
                add("T1-to_simple-definition", cls, f"simple keys={sorted(s.keys())} required={sorted(s.required_names)} defaults={sorted(s.defaults)} vs keys={sorted(keys)} required={sorted(req)} defaults={sorted(dfl)}")

        ref = None
        if cls == J:
            # J1 cached schema property (read before the oracle's own validate calls)
            try:
                sch = g.schema
                props = set(sch.get("properties", {}))
                sreq = set(sch.get("required", []))
                if props != keys or sreq != req:
                    add("J1-schema-property-stale", cls, f"schema: properties={sorted(props)} required={sorted(sreq)}; grammar: keys={sorted(keys)} required_names={sorted(req)}")
            except Exception as e:  # noqa: BLE001
                add("J1-schema-property-raises", cls, f"{type(e).__name__}: {e}")
            # J2 exported schema
            try:
                text = g.to_json()
                schema, d4, alt = _reference(text)
                props = set(schema.get("properties", {}))
                sreq = set(schema.get("required", []))
                if props != keys or sreq != req:
                    add("J2-to_json-definition", cls, f"to_json: properties={sorted(props)} required={sorted(sreq)}; grammar: keys={sorted(keys)} required_names={sorted(req)}")
                else:
                    ref = (d4, alt)
            except Exception as e:  # noqa: BLE001
                add("J2-to_json-raises", cls, f"{type(e).__name__}: {e}")
            if k == "q_to_json" and "to_file" in last["info"].get(cls, {}) and ref is not None and last["info"][cls]["to_file"] != schema:
                add("J3-to_file-vs-to_json", cls, f"to_file wrote {last['info'][cls]['to_file']} but to_json() gives {schema}")
        # V1 / V2
        verdicts = []
        v1 = v2 = False
        for d in data:
            try:
                acc = _verdict(g, d)
            except Exception as e:  # noqa: BLE001
                if not v1:
                    add("V0-validate-raises", cls, f"data={_show(d)}: {type(e).__name__}: {str(e)[:200]}")
                    v1 = True
                verdicts.append(None)
                continue
            verdicts.append(acc)
            exp = m.verdict(cls, d)
            if exp is not None and exp != acc and not v1:
                v1 = True
                add("V1-validate-vs-reference-definition", cls, f"validate({_show(d)}) accepted={acc}, reference definition says {exp} (elements={ {n: sorted(a) for n, a in m.elems.items()} } required={sorted(m.req)})")
            if ref is not None and not v2:
                cd = _cast(d)
                r4 = ref[0].is_valid(cd)
                try:
                    ra = ref[1].is_valid(cd) if ref[1] is not None else r4
                except Exception:  # noqa: BLE001  the other draft cannot read this draft-4 schema
                    ra = r4
                if r4 != ra:
                    last["draft_skips"] = last.get("draft_skips", 0) + 1
                elif r4 != acc:
                    v2 = True
                    add("V2-validate-vs-jsonschema", cls, f"validate({_show(d)}) accepted={acc}, jsonschema on to_json() says {r4}; to_json={text}")
        got[cls] = verdicts
    # V3 JSON and Simple agree where both type systems are comparable
    if J in got and S in got:
        for d, vj, vs in zip(data, got[J], got[S]):
            if vj is None or vs is None or vj == vs:
                continue
            comparable = all(
                n not in m.elems
                or (not any(a.startswith("opaque") for a in m.elems[n]) and elem_accepts(J, m.elems[n], _kind(v)) == elem_accepts(S, m.elems[n], _kind(v)))
                for n, v in d.items()
            )
            if comparable:
                add("V3-json-simple-disagree", "JSONGrammar+SimpleGrammar", f"validate({_show(d)}): JSON={vj} Simple={vs}")
                break
    last["stale_ns"] = stale_ns
    last["n_data"] = len(data)

    # A2 (source side of update): evaluated last, the uses fill the caches of the source
    if k == "update":
        for cls, info in last.get("info", {}).items():
            src = info.get("source")
            if not src or "post" not in src:
                continue
            other, cs = info["other"], src["cache_state"]
            twin, _ = st.spec._other(cls, src["kind"], st, cs)
            sig = {"source_cache": cs}
            pre, post = src["pre"], src["post"]
            if pre[0] != post[0]:
                diff = [f"{x} -> {y}" for x, y in zip(_flat(pre[0]), _flat(post[0])) if x != y]
                add("A2-update-changes-source", cls, f"definition of the source ({cs}): " + "; ".join(diff)[:600], observed="definition", **sig)
            elif cls == J:
                # a cache may be filled by the update (reading source.schema is legitimate), but only with what the
                # source itself would have put there; a filled cache must not change, a compiled validator must stay
                if pre[1][0] is None and post[1][0] is not None:
                    twin.schema  # noqa: B018
                    expected = canon_of(cls, twin)[1][0]
                    twin, _ = st.spec._other(cls, src["kind"], st, cs)
                else:
                    expected = pre[1][0]
                if post[1][0] != expected:
                    add("A2-update-changes-source", cls, f"cached schema dict of the source ({cs}): before={pre[1][0]} after={post[1][0]} expected={expected}", observed="cached-schema", **sig)
                if pre[1][1] and not post[1][1]:
                    add("A2-update-changes-source", cls, f"the compiled validator of the source ({cs}) is gone", observed="validator", **sig)
            elif pre[1] != post[1]:
                add("A2-update-changes-source", cls, f"caches of the source ({cs}): {pre[1]} -> {post[1]}", observed="caches", **sig)
            sdata = gen_data(_View(src["model"], st))
            used, ref = _uses(cls, other, sdata), _uses(cls, twin, sdata)
            for key in used:
                if used[key] != ref[key]:
                    detail = ""
                    if key == "verdicts" and isinstance(used[key], list) and isinstance(ref[key], list):
                        i = next(i for i, (x, y) in enumerate(zip(used[key], ref[key])) if x != y)
                        detail = f" first difference: validate({_show(sdata[i])}) source={used[key][i]} twin={ref[key][i]};"
                    add("A2-update-changes-source", cls, f"{key} of the source ({cs}) differs from a twin never passed to update:{detail} source={str(used[key])[:400]} twin={str(ref[key])[:400]}", observed=key, **sig)
                    break
            # later edits of the target (a throw-away at this point) never change the source, whatever its caches hold
            target = st.gs.get(cls)
            if target is not None and isinstance(used.get("state-after-uses"), tuple):
                try:
                    for i, n in enumerate(list(target.keys())):
                        target.rename_element(n, f"zz_tmp{i}")
                    if len(target) > 1:
                        target.restrict_to(list(target.keys())[:1])
                    target.clear()
                except Exception:  # noqa: BLE001  the target's own behaviour is judged by the exploration, not here
                    pass
                now = canon_of(cls, other)
                if now != used["state-after-uses"]:
                    diff = [f"{x} -> {y}" for x, y in zip(_flat(used["state-after-uses"]), _flat(now)) if x != y]
                    add("A2-update-changes-source", cls, f"renaming/restricting/clearing the updated grammar changed the source ({cs}): " + "; ".join(diff)[:600], observed="later-edit-of-target", **sig)
            exp = [src["model"].verdict(cls, d) for d in sdata]
            if isinstance(used["verdicts"], list):
                for d, e, a_ in zip(sdata, exp, used["verdicts"]):
                    if e is not None and e != a_:
                        add("A2-update-changes-source", cls, f"after the update the source ({cs}) gives validate({_show(d)})={a_}, its reference definition says {e}", observed="verdict-vs-reference", **sig)
                        break
    return out


def _flat(c):
    out = []
    for x in c:
        if isinstance(x, tuple) and x and isinstance(x[0], tuple):
            out.extend(_flat(x))
        elif isinstance(x, tuple):
            out.append(x)
        else:
            out.append(x)
    return out


# ------------------------------------------------------------------------------------------------------
def run(ctx):
    names, values = ctx.pick(NAME_TABLES), ctx.pick(VALUE_TABLES)
    depth = 4 if ctx.thorough else 3
    fdepth = 2 if ctx.thorough else 1
    pdepth = 4 if ctx.thorough else 2
    files = shipped_files()
    info = {}
    if not ctx.only or ctx.only == "empty":
        spec = Spec(names, values, ctx.scratch, [["start", "empty", {"names": list(names), "values": values}]])
        info["empty"] = explore.bfs(spec, depth, ctx.tally, jobs=ctx.jobs)
    if not ctx.only or ctx.only == "files":
        # one level deeper from six structurally different shipped schemas (enum/minimum/format without required
        # names; array + number; optional + required arrays; nested ids with min/maxItems; untyped arrays; minItems 1);
        # the other files to depth ``fdepth``
        deep = [f for f in files if Path(f).name in DEEP_FILES]
        spec = Spec(names, values, ctx.scratch, [["start", "file", f, values] for f in files if f not in deep])
        info["files"] = explore.bfs(spec, fdepth, ctx.tally, jobs=ctx.jobs)
        if deep:
            spec3 = Spec(names, values, ctx.scratch, [["start", "file", f, values] for f in deep])
            info["files_deep"] = {"files": deep, **explore.bfs(spec3, fdepth + 1, ctx.tally, jobs=ctx.jobs)}
        spec = Spec(names, values, ctx.scratch, [["start", "file", f, values] for f in files])
        # how often the reference verdict had to be left out because JSON-schema drafts disagree (oracle boundary)
        skips = 0
        for tok in spec.starts():
            st = spec.build([tok])
            check_state(st, tok)
            skips += st.last.get("draft_skips", 0)
        ctx.tally.count("draft_disagreements_skipped_at_file_starts", skips)
    if not ctx.only or ctx.only == "pmodel":
        spec = Spec(names, values, ctx.scratch, [["start", "pmodel", {"names": list(names), "values": values}]])
        info["pydantic_user_model"] = explore.bfs(spec, pdepth, ctx.tally, jobs=ctx.jobs)
    ctx.tally.notes["shipped_schema_files"] = len(files)
    return {
        "level": LEVEL,
        "rule": "BFS over histories of grammar edits and read-only queries applied to a JSONGrammar, a SimpleGrammar and a "
        "PydanticGrammar in lock-step with a reference definition, from the empty grammar (depth bound), from each shipped "
        "JSON schema file and from a PydanticGrammar on a user model with a default (shallower bounds); a history is non-trivial when an edit follows a cache-filling query "
        "(validate/schema/to_json/to_simple_grammar), a copy or a pickle round-trip; distinct = distinct operation histories",
        "exhaustive": True,
        "bounds": {"depth": depth, "depth_from_shipped_files": fdepth, "depth_from_six_shipped_files": fdepth + 1, "depth_from_pydantic_user_model": pdepth, "names": list(names), **info},
        "assumptions": [
            "value alphabet: 1-D float arrays with at least two components, one int, one non-integral float, one string, one nested mapping (3 tables rotated by VERIF_SEED); no booleans, integral floats, lists, complex or 2-D arrays",
            "an int against a float element is judged per class and excluded from the JSON/Simple agreement",
            "requiredness of an element that is required in the grammar and optional in the update source is adopted from the implementation",
            "a follower grammar (Simple, Pydantic) is dropped from the first operation whose meaning it does not share (merge, update_from_schema/file; for pydantic also required-name edits, untyped elements and sources with optional elements)",
            "stale namespace-map entries after deleting/renaming a namespaced element are reported as an outcome class, not flagged",
            "states merged on a canonical form including the cached schema dict, validator presence and the genson builder's own required set",
        ],
    }


def replay(case, ctx):
    hist = case["history"]
    start = hist[0]
    names = start[2]["names"] if start[1] != "file" else ctx.pick(NAME_TABLES)
    values = start[2]["values"] if start[1] != "file" else start[3]
    spec = Spec(names, values, ctx.scratch, [start])
    st = spec.build(hist)
    obs = {c: {"keys": sorted(g.keys()), "required_names": sorted(g.required_names), "defaults": {n: _tok(v) for n, v in g.defaults.items()}} for c, g in st.alive()}
    v = [{"signature": s, "message": msg} for s, msg in check_state(st, hist[-1])]
    return {"history": hist, "observed": obs, "reference": {"elements": {n: sorted(a) for n, a in st.model.elems.items()}, "required": sorted(st.model.req), "defaults": st.model.defaults}, "violations": v}
