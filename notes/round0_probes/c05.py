import logging, itertools, time, sys, collections, os, tempfile, shutil
logging.disable(logging.CRITICAL)
import numpy as np
from numpy import array
from gemseo.core.discipline import Discipline

class D(Discipline):
    def __init__(self):
        super().__init__(name="D")
        self.input_grammar.update_from_names(["a","b"]); self.output_grammar.update_from_names(["y","z"])
        self.default_input_data = {"a": array([0.]), "b": array([1.,1.])}
        self.runs = []; self.jruns = []
    @staticmethod
    def F(a,b): return {"y": array([a[0]**2 + 3*b[0]*b[1]]), "z": array([a[0]*b[0], b[1]-a[0]])}
    @staticmethod
    def J(a,b): return {"y": {"a": array([[2*a[0]]]), "b": array([[3*b[1], 3*b[0]]])}, "z": {"a": array([[b[0]],[-1.]]), "b": array([[a[0],0.],[0.,1.]])}}
    def _run(self, input_data):
        self.runs.append((input_data["a"].copy(), input_data["b"].copy())); return self.F(input_data["a"], input_data["b"])
    def _compute_jacobian(self, input_names=(), output_names=()):
        self.jruns.append(1); self.jac = self.J(self.io.data["a"], self.io.data["b"])

VALS = {"v1": (array([1.]), array([2.,3.])), "v2": (array([-1.]), array([0.5,3.])), "v1e": (array([1.+1e-9]), array([2.,3.]))}
def mk_ops():
    ops = []
    for v in VALS:
        ops.append(("exec", v)); ops.append(("exec_alias", v)); ops.append(("lin_all", v)); ops.append(("lin_sub", v))
    ops.append(("exec_default",))
    return ops
OPS = mk_ops()

def run_history(policy, hist, scratch):
    d = D(); tol = policy[1]
    if policy[0]=="none": d.set_cache(d.CacheType.NONE)
    elif policy[0]=="simple": d.set_cache(d.CacheType.SIMPLE, tolerance=tol)
    elif policy[0]=="memF": d.set_cache(d.CacheType.MEMORY_FULL, tolerance=tol, is_memory_shared=False)
    elif policy[0]=="memT": d.set_cache(d.CacheType.MEMORY_FULL, tolerance=tol, is_memory_shared=True)
    elif policy[0]=="hdf": d.set_cache(d.CacheType.HDF5, tolerance=tol, hdf_file_path=os.path.join(scratch, "c.h5"), hdf_node_path="n")
    shared = {"a": array([9.]), "b": array([9.,9.])}   # the aliased caller arrays
    seen = []  # inputs seen (values)
    problems = []
    for step, op in enumerate(hist):
        kind = op[0]
        if kind=="exec_default":
            a,b = array([0.]), array([1.,1.]); data = {}
        else:
            a,b = VALS[op[1]]
            if kind=="exec_alias":
                shared["a"][:] = a; shared["b"][:] = b; data = {"a": shared["a"], "b": shared["b"]}
            else: data = {"a": a.copy(), "b": b.copy()}
        def admissible(check):
            cands = [(a,b)] if tol==0 else [(a,b)]+[(sa,sb) for sa,sb in seen if np.linalg.norm(np.concatenate([sa-a, sb-b])) <= 1e-6]
            return any(check(ca,cb) for ca,cb in cands)
        if kind in ("exec","exec_alias","exec_default"):
            out = d.execute(data)
            if not admissible(lambda ca,cb: all(np.array_equal(out[k], v) for k,v in D.F(ca,cb).items())):
                problems.append((step, op, "wrong output", {k: out[k].tolist() for k in ("y","z")}))
        else:
            if kind=="lin_sub":
                d.add_differentiated_inputs(["a"]); d.add_differentiated_outputs(["y"])
                jac = d.linearize(data); pairs=[("y","a")]
            else:
                jac = d.linearize(data, compute_all_jacobians=True); pairs=[(o,i) for o in ("y","z") for i in ("a","b")]
            def chk(ca,cb):
                J = D.J(ca,cb)
                try: return all(np.array_equal(np.asarray(jac[o][i]), J[o][i]) for o,i in pairs)
                except KeyError: return False
            if not admissible(chk): problems.append((step, op, "wrong jac", {o:{i: np.asarray(v).tolist() for i,v in r.items()} for o,r in jac.items()}))
        seen.append((a.copy(), b.copy()))
    # run count
    distinct = {(x.tobytes(), y.tobytes()) for x,y in seen}
    if policy[0] in ("memF","memT","hdf") and tol==0 and len(d.runs) > len(distinct):
        problems.append(("end", None, f"body ran {len(d.runs)} times for {len(distinct)} distinct inputs", None))
    if policy[0] in ("memF","memT","hdf"):
        for e in d.cache.get_all_entries():
            if e.outputs:
                exp = D.F(e.inputs["a"], e.inputs["b"])
                if not all(np.allclose(e.outputs[k], exp[k], atol=(1e-6 if tol else 0)) for k in exp):
                    problems.append(("end", None, "cache entry pairs input with wrong output", ({k:v.tolist() for k,v in e.inputs.items()}, {k:v.tolist() for k,v in e.outputs.items()})))
    return problems

if __name__=="__main__":
    depth = int(sys.argv[1]) if len(sys.argv)>1 else 3
    scratch = tempfile.mkdtemp(dir="/dev/shm")
    for policy in [("none",0.0),("simple",0.0),("simple",1e-6),("memF",0.0),("memF",1e-6),("memT",0.0),("memT",1e-6)]:
        t=time.time(); n=0; bad=collections.Counter(); ex={}
        for L in range(1, depth+1):
            for hist in itertools.product(OPS, repeat=L):
                pr = run_history(policy, hist, scratch); n+=1
                for p in pr:
                    key=(p[2] if isinstance(p[2],str) else str(p[2]))[:60]; bad[key]+=1; ex.setdefault(key,(hist,p))
        print(policy, n, "histories", round(time.time()-t,1),"s", dict(bad))
        for k,v in ex.items(): print("    first:", k, v[0], v[1][3])
    shutil.rmtree(scratch)
