import logging, itertools, warnings, collections, time, sys
logging.disable(logging.CRITICAL); warnings.filterwarnings("ignore")
sys.path.insert(0,"/tmp/proto")
import numpy as np
from numpy import array, zeros
from c09 import Lin
from gemseo.algos.design_space import DesignSpace
from gemseo.formulations.mdf import MDF
from gemseo.formulations.idf import IDF
sz = {"x":2, "z":1, "y1":2, "y2":1, "o":1, "c":2}
def discs():
    d1 = Lin("D1", ["x","z","y2"], ["y1","o"], sz, 5); d2 = Lin("D2", ["z","y1"], ["y2","c"], sz, 6)
    for d in (d1,d2):
        for (o,i),M in d.M.items():
            if i in ("y1","y2"): d.M[o,i] = M*0.1
    return [d1,d2]
def exact(x, z):
    d1,d2 = discs()
    # unknown y=(y1(2),y2(1))
    A = np.eye(3); b = zeros(3)
    A[0:2,2:3] -= d1.M["y1","y2"]; b[0:2] = d1.M["y1","x"]@x + d1.M["y1","z"]@z + d1.c["y1"]
    A[2:3,0:2] -= d2.M["y2","y1"]; b[2:3] = d2.M["y2","z"]@z + d2.c["y2"]
    y = np.linalg.solve(A,b); y1,y2 = y[:2], y[2:]
    o = d1.M["o","x"]@x + d1.M["o","z"]@z + d1.M["o","y2"]@y2 + d1.c["o"]; c = d2.M["c","z"]@z + d2.M["c","y1"]@y1 + d2.c["c"]
    # derivatives wrt (x,z)
    dbdx = np.vstack([d1.M["y1","x"], zeros((1,2))]); dbdz = np.vstack([d1.M["y1","z"], d2.M["y2","z"]])
    dy = np.linalg.solve(A, np.hstack([dbdx, dbdz]))   # (3, 3) columns x0,x1,z
    do = np.hstack([d1.M["o","x"], d1.M["o","z"]]) + d1.M["o","y2"]@dy[2:3]
    dc = np.hstack([zeros((2,2)), d2.M["c","z"]]) + d2.M["c","y1"]@dy[0:2]
    return y1,y2,o,c,do,dc
def space(order):
    ds = DesignSpace()
    for n in order: ds.add_variable(n, sz[n], lower_bound=-50., upper_bound=50., value=np.full(sz[n], 0.5))
    return ds
xv, zv = array([0.3,-1.2]), array([0.8])
y1,y2,o,c,do,dc = exact(xv,zv)
vals = {"x":xv,"z":zv,"y1":y1,"y2":y2}
bad = collections.Counter(); n=0; t=time.time()
for order in itertools.permutations(["x","z","y1","y2"]):
    for mda in ("MDAGaussSeidel","MDAJacobi","MDANewtonRaphson"):
        n+=1
        mdf = MDF(discs(), "o", space(order), main_mda_name=mda, main_mda_settings={"tolerance":1e-13,"max_mda_iter":100}); mdf.add_constraint("c", constraint_type="ineq")
        idf = IDF(discs(), "o", space(order)); idf.add_constraint("c", constraint_type="ineq")
        pm, pi = mdf.optimization_problem, idf.optimization_problem
        if pm.design_space.variable_names != [v for v in order if v in ("x","z")]: bad["MDF design space"]+=1
        if pi.design_space.variable_names != list(order): bad["IDF design space"]+=1
        xm = np.concatenate([vals[v] for v in pm.design_space.variable_names]); xi = np.concatenate([vals[v] for v in pi.design_space.variable_names])
        if abs(pm.objective.evaluate(xm) - o).max() > 1e-10: bad["MDF obj"]+=1
        if abs(pi.objective.evaluate(xi) - o).max() > 1e-12: bad["IDF obj"]+=1
        cm = [k for k in pm.constraints if k.name=="c"][0]; ci = [k for k in pi.constraints if k.name=="c"][0]
        if abs(cm.evaluate(xm)-c).max()>1e-10: bad["MDF c"]+=1
        if abs(ci.evaluate(xi)-c).max()>1e-12: bad["IDF c"]+=1
        for k in pi.constraints:
            if k.name!="c" and abs(np.atleast_1d(k.evaluate(xi))).max()>1e-12: bad["IDF consistency at solution"]+=1
        # MDF total derivative in its own variable order
        cols = {"x":[0,1],"z":[2]}; perm = sum((cols[v] for v in pm.design_space.variable_names), [])
        if abs(np.atleast_2d(pm.objective.jac(xm)) - do[:,perm]).max()>1e-9: bad["MDF dobj"]+=1
        if abs(np.atleast_2d(cm.jac(xm)) - dc[:,perm]).max()>1e-9: bad["MDF dc"]+=1
print(n,"formulation pairs", round(time.time()-t,1),"s", dict(bad) or "all ok")
