import logging, itertools, time, warnings, sys, collections
logging.disable(logging.CRITICAL); warnings.filterwarnings("ignore")
import numpy as np
from numpy import array, nan, inf
from gemseo.algos.design_space import DesignSpace
from gemseo.algos.optimization_problem import OptimizationProblem
from gemseo.core.mdo_functions.mdo_function import MDOFunction
TOLS = [(0.,0.), (1e-2,1e-4)]   # (ineq, eq)
def alphabets(ti, te):
    OBJ = [None, 1., 2., nan]
    G = [None, array([-1.]), array([ti]), array([ti+1e-6]), array([1.]), array([nan])]
    G2 = [None, array([-1.,-1.]), array([-1., 0.5]), array([2., 0.5])]
    H = [None, array([0.]), array([te]), array([1.])]
    return OBJ, G, G2, H
def problem(ti, te):
    ds = DesignSpace(); ds.add_variable("x", 1, lower_bound=0., upper_bound=10., value=1.)
    p = OptimizationProblem(ds); p.objective = MDOFunction(lambda x: x, "f")
    p.add_constraint(MDOFunction(lambda x: x, "g"), constraint_type="ineq"); p.add_constraint(MDOFunction(lambda x: x, "g2"), constraint_type="ineq"); p.add_constraint(MDOFunction(lambda x: x, "h"), constraint_type="eq")
    p.tolerances.inequality = ti; p.tolerances.equality = te
    return p
def sat(name, v, ti, te):
    if v is None: return None
    if np.isnan(v).any(): return False
    return bool((abs(v) <= te).all()) if name=="h" else bool((v <= ti).all())
def viol(rec, ti, te):
    tot=0.
    for name in ("g","g2","h"):
        v = rec.get(name)
        if v is None: return None   # undefined by the statement
        if np.isnan(v).any(): return inf
        if name=="h": e = np.maximum(abs(v)-te, 0.)
        else: e = np.maximum(v-ti, 0.)
        tot += float((e**2).sum())
    return tot
def check(records, ti, te):
    p = problem(ti, te)
    for i, rec in enumerate(records): p.database.store(array([float(i)]), {k: v for k,v in rec.items() if v is not None})
    try: o = p.optimum
    except Exception as e: return f"EXC {type(e).__name__}"
    feas = [i for i,rec in enumerate(records) if all(sat(n, rec.get(n), ti, te) is True for n in ("g","g2","h"))]
    if feas:
        if not o.is_feasible: return "feasible exists but flagged infeasible"
        withf = [i for i in feas if records[i].get("f") is not None and not np.isnan(records[i]["f"])]
        if len(o.design)==0:
            return "feasible point exists, none has usable objective: reported point is not a recorded point" if not withf else "empty design although feasible with objective"
        i = int(o.design[0])
        if i not in feas: return "reported point not feasible"
        if withf and (records[i].get("f") is None or np.isnan(records[i]["f"]) or records[i]["f"] > min(records[j]["f"] for j in withf)): return "not the best feasible"
        if o.objective is not None and records[i].get("f") is not None and not (o.objective == records[i]["f"] or (np.isnan(o.objective) and np.isnan(records[i]["f"]))): return "objective not that of the point"
    else:
        if o.is_feasible: return "no feasible point but flagged feasible"
        i = int(o.design[0]); vi = viol(records[i], ti, te)
        full = [viol(r, ti, te) for r in records]
        if vi is not None and any(v is not None and v < vi - 1e-15 for v in full): return "not least infeasible among fully evaluated"
    for name in ("g","g2","h"):
        got = o.constraints.get(name); exp = records[i].get(name)
        if (got is None) != (exp is None) or (got is not None and not np.array_equal(got, exp, equal_nan=True)): return "constraint values not those of the point"
    return None
if __name__=="__main__":
    npts=int(sys.argv[1])
    for ti,te in TOLS:
        OBJ,G,G2,H = alphabets(ti,te); recs=[dict(f=f,g=g,g2=g2,h=h) for f in OBJ for g in G for g2 in G2 for h in H]
        t=time.time(); cnt=0; bad=collections.Counter(); ex={}
        for n in range(1,npts+1):
            for combo in itertools.product(recs, repeat=n):
                if all(len([v for v in r.values() if v is not None])==0 for r in combo): continue
                r = check(combo, ti, te); cnt+=1
                if r: bad[r]+=1; ex.setdefault(r, combo)
        print("tol",(ti,te),cnt,"databases",round(time.time()-t,1),"s")
        for k,v in bad.most_common(): print("   ",v,k, [ {a:(None if b is None else np.asarray(b).tolist()) for a,b in r.items()} for r in ex[k]])
