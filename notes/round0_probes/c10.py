import logging, itertools, time, warnings, sys, collections
logging.disable(logging.CRITICAL); warnings.filterwarnings("ignore")
import numpy as np
from numpy import array
from gemseo.core.mdo_functions.mdo_function import MDOFunction
from gemseo.core.mdo_functions.mdo_linear_function import MDOLinearFunction
from gemseo.core.mdo_functions.mdo_quadratic_function import MDOQuadraticFunction
from gemseo.core.mdo_functions.function_restriction import FunctionRestriction
from gemseo.core.mdo_functions.linear_composite_function import LinearCompositeFunction
from gemseo.core.mdo_functions.concatenate import Concatenate
from gemseo.core.mdo_functions.convex_linear_approx import ConvexLinearApprox
from gemseo.core.mdo_functions.taylor_polynomials import compute_linear_approximation, compute_quadratic_approximation
def leaves():
    yield "s", MDOFunction(lambda x: array([x[0]**2*x[1] + 3*x[1]]), "s", jac=lambda x: array([[2*x[0]*x[1], x[0]**2+3]]), dim=1)
    yield "s0", MDOFunction(lambda x: x[0]*x[1] + 1., "s0", jac=lambda x: array([x[1], x[0]]), dim=1)   # returns scalar, 1-D jac
    yield "v22", MDOFunction(lambda x: array([x[0]**2, x[0]*x[1]+2]), "v22", jac=lambda x: array([[2*x[0],0.],[x[1],x[0]]]), dim=2)
    yield "w22", MDOFunction(lambda x: array([x[1]+3., x[0]-x[1]**2+4]), "w22", jac=lambda x: array([[0.,1.],[1.,-2*x[1]]]), dim=2)
    yield "v32", MDOFunction(lambda x: array([x[0]+1, x[1]**2+2, x[0]*x[1]+3]), "v32", jac=lambda x: array([[1.,0.],[0.,2*x[1]],[x[1],x[0]]]), dim=3)
    yield "lin1", MDOLinearFunction(array([2.,-3.]), "lin1", value_at_zero=1.5)
    yield "lin2", MDOLinearFunction(array([[2.,-3.],[0.5,4.]]), "lin2", value_at_zero=array([1.,-2.]))
    yield "quad", MDOQuadraticFunction(array([[1.,2.],[2.,-1.]]), "quad", linear_coeffs=array([0.5,1.]), value_at_zero=2.)
NUMS = [("n", 2.5), ("a2", array([2.,-0.5])), ("a3", array([1.,2.,3.]))]
PTS = [array([1.3,-0.7]), array([0.,2.]), array([-1.1,0.4])]
def num_jac(f, x):
    def D(h): return array([(np.atleast_1d(f(x+h*e)) - np.atleast_1d(f(x-h*e)))/(2*h) for e in np.eye(len(x))]).T
    d1, d2 = D(1e-3), D(2e-3); return (4*d1-d2)/3, abs(d1-d2).max()
def check(name, fn, ref=None):
    out=[]
    for x in PTS:
        try:
            v = np.atleast_1d(fn.evaluate(x))
            if ref is not None:
                rv = np.atleast_1d(ref(x))
                if v.shape!=rv.shape or not np.allclose(v, rv, rtol=1e-12, atol=1e-12): out.append(("value", x.tolist(), v.tolist(), rv.tolist()))
            J = np.atleast_2d(np.asarray(fn.jac(x))); Jn, est = num_jac(fn.evaluate, x)
            if J.shape != Jn.shape: out.append(("jac shape", x.tolist(), J.shape, Jn.shape))
            elif not np.allclose(J, Jn, rtol=1e-6, atol=1e-6+10*est): out.append(("jac", x.tolist(), J.tolist(), Jn.round(6).tolist()))
        except Exception as e:
            out.append((f"EXC {type(e).__name__}: {str(e)[:70]}", x.tolist(), None, None))
    return out
import operator
OPS = [("+", operator.add), ("-", operator.sub), ("*", operator.mul), ("/", operator.truediv)]
res = collections.OrderedDict(); n=0
L = list(leaves())
for (na, fa) in L:
    r = check("-"+na, -fa, lambda x, fa=fa: -np.atleast_1d(fa.evaluate(x))); n+=1
    if r: res["neg "+na]=r[0]
    r = check("offset "+na, fa.offset(1.5), lambda x, fa=fa: np.atleast_1d(fa.evaluate(x))+1.5); n+=1
    if r: res["offset "+na]=r[0]
    for sym, op in OPS:
        for (nb, fb) in L:
            if fa.dim != fb.dim and 1 not in (fa.dim, fb.dim): continue
            try: g = op(fa, fb)
            except Exception as e: res[f"{na}{sym}{nb}"]=("build EXC "+type(e).__name__,); continue
            r = check(f"{na}{sym}{nb}", g, lambda x, fa=fa, fb=fb, op=op: op(np.atleast_1d(fa.evaluate(x)), np.atleast_1d(fb.evaluate(x)))); n+=1
            if r: res[f"{na}{sym}{nb}"]=r[0]
        for (nn, c) in NUMS:
            if isinstance(c, np.ndarray) and len(c)!=fa.dim: continue
            try: g = op(fa, c)
            except Exception as e: res[f"{na}{sym}{nn}"]=("build EXC "+type(e).__name__+": "+str(e)[:50],); continue
            r = check(f"{na}{sym}{nn}", g, lambda x, fa=fa, c=c, op=op: op(np.atleast_1d(fa.evaluate(x)), c)); n+=1
            if r: res[f"{na}{sym}{nn}"]=r[0]
# helpers
for (na, fa) in L:
    try:
        g = FunctionRestriction(array([1]), array([0.4]), 2, fa); 
        r=[]
        for x in [array([1.3]), array([-0.2])]:
            v=np.atleast_1d(g.evaluate(x)); rv=np.atleast_1d(fa.evaluate(array([x[0],0.4])))
            J=np.atleast_2d(np.asarray(g.jac(x))); Jr=np.atleast_2d(np.asarray(fa.jac(array([x[0],0.4]))))[:, [0]]
            if not np.allclose(v,rv): r.append(("value",v,rv))
            if J.shape!=Jr.shape or not np.allclose(J,Jr): r.append(("jac",J.tolist(),Jr.tolist()))
        n+=1
        if r: res["restrict "+na]=r[0]
    except Exception as e: res["restrict "+na]=("EXC "+type(e).__name__+": "+str(e)[:60],)
    try:
        M = array([[1.,2.,0.],[0.,-1.,3.]]); g = LinearCompositeFunction(fa, M); r=[]
        for z in [array([1.,0.5,-1.]), array([0.,2.,1.])]:
            v=np.atleast_1d(g.evaluate(z)); rv=np.atleast_1d(fa.evaluate(M@z)); J=np.atleast_2d(np.asarray(g.jac(z))); Jr=np.atleast_2d(np.asarray(fa.jac(M@z)))@M
            if not np.allclose(v,rv): r.append(("value",v,rv))
            if J.shape!=Jr.shape or not np.allclose(J,Jr): r.append(("jac",J.tolist(),Jr.tolist()))
        n+=1
        if r: res["lincomp "+na]=r[0]
    except Exception as e: res["lincomp "+na]=("EXC "+type(e).__name__+": "+str(e)[:60],)
    for (nb, fb) in L:
        try:
            g = Concatenate([fa, fb], "c"); r=[]
            for x in PTS:
                v=np.atleast_1d(g.evaluate(x)); rv=np.concatenate([np.atleast_1d(fa.evaluate(x)), np.atleast_1d(fb.evaluate(x))])
                J=np.atleast_2d(np.asarray(g.jac(x))); Jr=np.vstack([np.atleast_2d(np.asarray(fa.jac(x))), np.atleast_2d(np.asarray(fb.jac(x)))])
                if not np.allclose(v,rv): r.append(("value",v,rv))
                if J.shape!=Jr.shape or not np.allclose(J,Jr): r.append(("jac",J.tolist(),Jr.tolist()))
            n+=1
            if r: res[f"concat {na},{nb}"]=r[0]
        except Exception as e: res[f"concat {na},{nb}"]=("EXC "+type(e).__name__+": "+str(e)[:60],)
    for nm, mk in [("taylor1", lambda f,x0: compute_linear_approximation(f, x0)), ("taylor2", lambda f,x0: compute_quadratic_approximation(f, x0, np.zeros((2,2)))), ("conlin", lambda f,x0: ConvexLinearApprox(x0, f))]:
        try:
            x0 = array([1.3,-0.7]); g = mk(fa, x0)
            v=np.atleast_1d(g.evaluate(x0)); rv=np.atleast_1d(fa.evaluate(x0)); J=np.atleast_2d(np.asarray(g.jac(x0))); Jr=np.atleast_2d(np.asarray(fa.jac(x0)))
            n+=1
            if not np.allclose(v,rv) or J.shape!=Jr.shape or not np.allclose(J,Jr): res[f"{nm} {na}"]=("mismatch at x0", v.tolist(), rv.tolist(), J.tolist(), Jr.tolist())
        except Exception as e: res[f"{nm} {na}"]=("EXC "+type(e).__name__+": "+str(e)[:70],)
print(n, "constructions checked;", len(res), "with problems")
for k,v in res.items(): print("  ", k, "->", str(v)[:230])
