import logging, os, time, itertools, tempfile, sys
logging.disable(logging.CRITICAL)
from gemseo.core.parallel_execution.callable_parallel_execution import CallableParallelExecution
d = tempfile.mkdtemp(dir="/dev/shm")
def turn_path(k): return os.path.join(d, f"turn{k}")
class Task:
    def __init__(self, order, fail): self.order, self.fail = order, fail
    def __call__(self, i):
        pos = self.order.index(i)
        t0=time.time()
        while not os.path.exists(turn_path(pos)):
            time.sleep(0.001)
            if time.time()-t0>5: raise TimeoutError("gate")
        if i in self.fail:
            open(turn_path(pos+1),"w").close()   # failing task releases the next one itself
            raise ValueError(f"boom {i}")
        return (i, i*10)
def run(order, fail, W):
    for f in os.listdir(d): os.remove(os.path.join(d,f))
    log=[]
    def cb(index, out):
        log.append((index,out)); open(turn_path(len([1 for j in order[:order.index(index)+1]])),"w").close()
    open(turn_path(0),"w").close()
    p = CallableParallelExecution([Task(order, fail)], n_processes=W)
    t=time.time(); out = p.execute(list(range(len(order))), exec_callback=cb); return out, log, time.time()-t
if __name__=="__main__":
    sys.stderr = open(os.devnull,"w")
    for order in [(0,1,2),(1,0,2),(0,2,1),(1,2,0)]:
        out, log, dt = run(order, (), 2); print(order, out, [i for i,_ in log], round(dt,2))
    out, log, dt = run((1,0,2), (0,), 2); print("fail0", out, [i for i,_ in log], round(dt,2))
