import logging, warnings, inspect
logging.disable(logging.CRITICAL); warnings.filterwarnings("ignore")
import numpy as np
from numpy import array
from gemseo.uncertainty.distributions.factory import DistributionFactory
F = DistributionFactory()
params = {
 "Uniform": [dict(minimum=-1., maximum=2.), dict(minimum=0., maximum=1e-3)],
 "Normal": [dict(mu=1., sigma=2.), dict(mu=-3., sigma=0.1)],
 "Triangular": [dict(minimum=-1., mode=0.5, maximum=2.), dict(minimum=0., mode=0., maximum=1.)],
 "Exponential": [dict(rate=2., loc=1.), dict(rate=0.5, loc=0.)],
 "Beta": [dict(alpha=2., beta=3., minimum=-1., maximum=2.), dict(alpha=0.5, beta=0.5, minimum=0., maximum=1.)],
 "Weibull": [dict(location=1., scale=2., shape=1.5)],
 "LogNormal": [dict(mu=0.5, sigma=0.4, location=0.), dict(mu=1., sigma=1., location=-1., set_log=True)],
}
ps = array([0.01,0.1,0.5,0.9,0.99])
for fam, plist in params.items():
    for prm in plist:
        objs = {}
        for lib in ("SP","OT"):
            cls = f"{lib}{fam}Distribution"
            try:
                d = F.create(cls, **prm); objs[lib]=d
                x = array([d.compute_inverse_cdf(array([p]))[0] for p in ps])
                back = array([d.compute_cdf(array([xi]))[0] for xi in x])
                s = d.compute_samples(200)
                sup = d.support; rng = d.range
                ok_cdf = np.allclose(back, ps, atol=1e-9)
                insup = bool(((s>=sup[0][0]-1e-12)&(s<=sup[0][1]+1e-12)).all()) if np.ndim(sup)>1 else bool(((s>=sup[0])&(s<=sup[1])).all())
                print(f"{cls:28s} {str(prm):70s} cdf∘inv ok={ok_cdf} insupport={insup} mean={np.ravel(d.mean)[0]:.6g} std={np.ravel(d.standard_deviation)[0]:.6g} range={np.ravel(rng).tolist()} support={np.ravel(sup).tolist()}")
            except Exception as e:
                print(f"{cls:28s} {str(prm):70s} EXC {type(e).__name__}: {str(e)[:90]}")
        if len(objs)==2:
            a,b = objs["SP"], objs["OT"]
            xa = array([a.compute_inverse_cdf(array([p]))[0] for p in ps]); xb = array([b.compute_inverse_cdf(array([p]))[0] for p in ps])
            print("    SP vs OT inv_cdf maxdiff", abs(xa-xb).max(), "mean diff", abs(np.ravel(a.mean)[0]-np.ravel(b.mean)[0]), "std diff", abs(np.ravel(a.standard_deviation)[0]-np.ravel(b.standard_deviation)[0]))
