import logging, itertools, warnings, collections, time
logging.disable(logging.CRITICAL); warnings.filterwarnings("ignore")
import numpy as np
from numpy import array
from gemseo.algos.design_space import DesignSpace
from gemseo.utils.derivatives.finite_differences import FirstOrderFD
from gemseo.utils.derivatives.centered_differences import CenteredDifferences
from gemseo.utils.derivatives.complex_step import ComplexStep
# cubic polynomial in 3 variables, 2 outputs: known derivative bounds on [-2,2]^3
def F(x): return array([x[0]**3 + 2*x[0]*x[1] - x[2]**2, x[0]*x[1]*x[2] + x[1]**2])
def dF(x): return array([[3*x[0]**2 + 2*x[1], 2*x[0], -2*x[2]], [x[1]*x[2], x[0]*x[2] + 2*x[1], x[0]*x[1]]])
M2, M3, FMAX = 12.+4, 6., 40.   # crude bounds of |second|, |third| derivatives and |F| on the box
ds = DesignSpace(); ds.add_variable("x", 3, lower_bound=-2., upper_bound=2.)
PTS = {"interior": array([0.3,-1.1,0.8]), "zero": array([0.,1.,0.]), "on_ub": array([2.,0.5,2.]), "on_lb": array([-2.,-2.,1.]), "near_ub": array([2.-5e-7, 0.1, 2.-1e-5])}
res = collections.Counter(); ex={}; n=0; t=time.time()
for (aname, cls), (pname, x), step, dsp, normalize in itertools.product([("FD",FirstOrderFD),("CD",CenteredDifferences),("CS",ComplexStep)], PTS.items(), (1e-4,1e-6,"vec"), (None, ds), (False, True)):
    if dsp is None and normalize: continue
    for idx in [()] + [list(c) for r in (1,2) for c in itertools.combinations(range(3), r)]:
        calls=[]
        def f(z, calls=calls): calls.append(np.array(z)); return F(z)
        h = array([1e-4,1e-5,1e-6]) if step=="vec" else step
        if aname=="CS": h = 1e-20 if step!="vec" else None
        if h is None: continue
        xx = x.copy(); fun=f; exact=dF
        if normalize:
            xx = ds.normalize_vect(x); fun = lambda z, f=f: f(ds.unnormalize_vect(z)); exact = lambda z: dF(ds.unnormalize_vect(z))*4.
        try:
            ap = cls(fun, step=h, design_space=dsp, normalize=normalize)
            J = ap.f_gradient(xx, x_indices=idx); n+=1
            cols = idx if idx else [0,1,2]; E = exact(xx)[:, cols]
            hh = (np.atleast_1d(h)*np.ones(3))[cols] * (4. if normalize else 1.) if aname!="CS" else None
            if J.shape != E.shape: key=f"shape {J.shape} vs {E.shape}"
            else:
                if aname=="FD": bound = hh/2*M2*(16 if normalize else 1) + 4*2.3e-16*FMAX/np.atleast_1d(h)[0 if np.isscalar(h) else cols] if False else None
                err = abs(J-E).max(axis=0)
                if aname=="FD": tol = hh/2*M2 + 4*2.3e-16*FMAX/(hh/(4. if normalize else 1.))
                elif aname=="CD": tol = hh**2/6*M3 + 2*2.3e-16*FMAX/(hh/(4. if normalize else 1.))
                else: tol = 1e-12*np.maximum(1, abs(E).max(axis=0))
                if normalize and aname!="CS": tol = tol*4   # chain rule factor
                key = "ok" if (err <= tol*1.01+1e-15).all() else f"error above bound"
            if dsp is not None:
                ub = ds.get_upper_bounds()
                over = max((c.real - ub).max() for c in calls) if not normalize else max((np.asarray(c).real - ub).max() for c in calls)
                if over > 1e-12: key += " + exceeds upper bound"
        except Exception as e:
            key = f"EXC {type(e).__name__}: {str(e)[:50]}"
        k = (aname, "ds" if dsp is not None else "nods", "subset" if idx and len(idx)<3 else "all", key if key.startswith(("ok","EXC")) else key)
        res[k]+=1; ex.setdefault(k, (pname, step, normalize, idx))
print(n, "cases", round(time.time()-t,1), "s")
for k,v in sorted(res.items()): print(v, k, "" if k[3]=="ok" else ex[k])
