import logging, sys, io, contextlib, collections, time
logging.disable(logging.CRITICAL)
sys.path.insert(0,"/tmp/proto")
import numpy as np
from numpy import array
import sched as S
from c09 import Lin
import gemseo.core.parallel_execution.callable_parallel_execution as cpe
from gemseo.core.chains.parallel_chain import MDOParallelChain
from gemseo.core.chains.chain import MDOChain
sizes={"a":1,"b":2,"c":1,"d":2,"e":1}
def discs(): return [Lin("D0",["a","b"],["c"],sizes,1), Lin("D1",["a"],["d"],sizes,2), Lin("D2",["b"],["e"],sizes,3)]
x={"a":array([0.5]),"b":array([1.,-2.])}
ref = MDOChain(discs()); rout = ref.execute(x); rj = ref.linearize(x, compute_all_jacobians=True)
def run_once(choices):
    S.S = S.Sched(choices); S.S.register_main()
    cpe.queue = S.FakeQueueMod; cpe.th = S.FakeThMod
    pc = MDOParallelChain(discs(), use_threading=True, n_processes=2)
    out = pc.execute(x); j = pc.linearize(x, compute_all_jacobians=True)
    ok = all(np.array_equal(out[k], rout[k]) for k in ("c","d","e")) and all(np.allclose(np.asarray(j[o][i].todense() if hasattr(j[o][i],"todense") else j[o][i]), np.asarray(rj[o][i].todense() if hasattr(rj[o][i],"todense") else rj[o][i])) for o in ("c","d","e") for i in ("a","b"))
    return ok, S.S.trace
stack=[[]]; n=0; bad=0; t=time.time(); bound=2
with contextlib.redirect_stderr(io.StringIO()):
    while stack:
        prefix=stack.pop(); ok,trace = run_once(prefix); n+=1; bad += (not ok)
        for i in range(len(prefix), len(trace)):
            en,c = trace[i]; dev = sum(1 for (_,cc) in trace[:i] if cc!=0)
            if dev+1>bound: continue
            for alt in range(1,len(en)): stack.append([cc for (_,cc) in trace[:i]]+[alt])
print("schedules",n,"bad",bad,"points per run",len(trace),round(time.time()-t,1),"s")
