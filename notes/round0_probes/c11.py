import logging, itertools, time, warnings, sys, os, tempfile, shutil, collections
logging.disable(logging.CRITICAL); warnings.filterwarnings("ignore")
import numpy as np
from numpy import array
from gemseo.algos.database import Database
P = [array([1.,2.]), array([3.,4.]), array([5,6])]   # last is int dtype
VALS = {"zs": 1.5, "a1": array([2.5]), "mv": array([1.,2.,3.]), "bm": array([[1.,2.],[3.,4.]]), "cl": [7, 8]}
OPS = [("new", i, names) for i in range(3) for names in [(), ("zs",), ("mv","a1"), ("zs","bm","cl")]] + \
      [("add", i, (n,)) for i in range(3) for n in ("zs","a1","mv","bm")] + [("exp_a",), ("exp_w",)]
def same(a, b):
    if isinstance(a, (list, np.ndarray)) or isinstance(b, (list, np.ndarray)):
        a, b = np.asarray(a, dtype=float), np.asarray(b, dtype=float); return a.shape==b.shape and np.array_equal(a,b)
    return float(a)==float(b)
def compare(db, back):
    k1 = [x.wrapped_array for x in db]; k2 = [x.wrapped_array for x in back]
    if len(k1)!=len(k2) or not all(np.array_equal(a,b) for a,b in zip(k1,k2)): return f"keys differ {k1} vs {k2}"
    for x1, x2 in zip(db, back):
        v1, v2 = db[x1], back[x2]
        if set(v1)!=set(v2): return f"names differ at {x1}: {sorted(v1)} vs {sorted(v2)}"
        for n in v1:
            if not same(v1[n], v2[n]): return f"value differs at {x1} {n}: {v1[n]} vs {v2[n]}"
    return None
def run(hist, path, node=""):
    if os.path.exists(path): os.remove(path)
    db = Database(); problems=[]; stored=set(); exported=False
    for step, op in enumerate(hist):
        if op[0]=="new":
            if op[1] in stored: return None   # not enabled
            db.store(P[op[1]], {n: VALS[n] for n in op[2]}); stored.add(op[1])
        elif op[0]=="add":
            if op[1] not in stored or op[2][0] in db[P[op[1]]]: return None
            db.store(P[op[1]], {op[2][0]: VALS[op[2][0]]})
        else:
            if not len(db): return None
            try:
                db.to_hdf(path, append=(op[0]=="exp_a"), hdf_node_path=node); back = Database.from_hdf(path, hdf_node_path=node)
                msg = compare(db, back)
            except Exception as e:
                msg = f"EXC {type(e).__name__}: {str(e)[:100]}"
            if msg: problems.append((step, op, msg)); break
    return problems
if __name__=="__main__":
    depth = int(sys.argv[1]); d = tempfile.mkdtemp(dir="/dev/shm"); path = os.path.join(d,"db.h5")
    t=time.time(); n=0; bad=collections.Counter(); ex={}
    for L in range(1, depth+1):
        for hist in itertools.product(OPS, repeat=L):
            if hist[-1][0] not in ("exp_a","exp_w"): continue
            pr = run(hist, path)
            if pr is None: continue
            n+=1
            for p in pr:
                key = p[2][:50]; bad[key]+=1; ex.setdefault(key, hist)
    print(n, "histories", round(time.time()-t,1), "s")
    for k,v in bad.most_common(): print(v, k, ex[k])
    shutil.rmtree(d)
