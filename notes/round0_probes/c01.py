import logging, itertools, time, warnings, sys, collections
logging.disable(logging.CRITICAL); warnings.filterwarnings("ignore")
import numpy as np
from numpy import array, inf
from gemseo.algos.design_space import DesignSpace
from gemseo.algos.optimization_problem import OptimizationProblem
from gemseo.core.mdo_functions.mdo_function import MDOFunction
from gemseo.core.mdo_functions.mdo_linear_function import MDOLinearFunction
LB = array([1., -inf, 2., 0.]); UB = array([3., inf, 2., 4.]); INT = array([False,False,False,True])
NORM = array([True, False, True, False])   # normalized comps (integers not normalized by default)
def F(x): return array([x[0]**2 + 3*x[0]*x[1] + 5*x[2]*x[0] + x[3]*x[1]])
def dF(x): return array([[2*x[0]+3*x[1]+5*x[2], 3*x[0]+x[3], 5*x[0], x[1]]])
A = array([[1.,2.,3.,4.],[0.,-1.,0.5,2.]]); B = array([1.,-2.])
def G(x): return A@x + B
PHYS = [array([1.5,0.7,2.,2.]), array([3.,-1.,2.,0.]), array([1.,0.,2.,4.])]
def mk(cfg):
    ds = DesignSpace()
    ds.add_variable("a", 1, lower_bound=1., upper_bound=3., value=2.); ds.add_variable("u", 1, value=0.5)
    ds.add_variable("e", 1, lower_bound=2., upper_bound=2., value=2.); ds.add_variable("n", 1, type_="integer", lower_bound=0, upper_bound=4, value=1)
    calls = collections.Counter()
    def f(x): calls[("f", x.tobytes())]+=1; return F(x)
    def df(x): calls[("df", x.tobytes())]+=1; return dF(x)
    p = OptimizationProblem(ds); p.objective = MDOFunction(f, "f", jac=df)
    p.add_constraint(MDOLinearFunction(A, "g", value_at_zero=B), constraint_type="ineq")
    p.preprocess_functions(is_function_input_normalized=cfg["norm"], use_database=cfg["db"], round_ints=cfg["round"], store_jacobian=cfg["storejac"])
    return p, ds, calls
def to_caller(ds, x, norm): return ds.normalize_vect(x) if norm else x.copy()
def scale(norm):
    d = np.ones(4)
    if norm: d[NORM] = (UB-LB)[NORM]
    return d
def run(cfg, hist):
    p, ds, calls = mk(cfg); model = collections.OrderedDict(); problems=[]
    funcs = {"f": p.objective, "g": p.constraints[0]}
    for step,(fn, kind, pi) in enumerate(hist):
        x = PHYS[pi]; xc = to_caller(ds, x, cfg["norm"])
        if kind=="val":
            got = np.atleast_1d(funcs[fn].evaluate(xc)); exp = F(x) if fn=="f" else G(x)
            if not np.allclose(got, exp, rtol=1e-14, atol=1e-14): problems.append((step, "value", got, exp))
            rec = exp
        else:
            got = np.atleast_2d(np.asarray(funcs[fn].jac(xc))); Jp = dF(x) if fn=="f" else A
            exp = Jp*scale(cfg["norm"])
            if not np.allclose(got, exp, rtol=1e-13, atol=1e-13): problems.append((step, "jac", got, exp))
            rec = Jp.copy()
            if cfg["norm"]: rec[:, (UB==LB)] = 0.
        if cfg["db"] and (kind=="val" or cfg["storejac"]):
            model.setdefault(x.tobytes(), collections.OrderedDict())[(fn if kind=="val" else "@"+fn)] = rec
        # database vs model
        if cfg["db"]:
            db = p.database
            keys = [k.wrapped_array.tobytes() for k in db]
            if keys != list(model): problems.append((step, "db keys", [k.wrapped_array.tolist() for k in db], None))
            else:
                for k in db:
                    vals = db[k]; m = model[k.wrapped_array.tobytes()]
                    if set(vals)!=set(m): problems.append((step, "db names", sorted(vals), sorted(m)))
                    else:
                        for nme in vals:
                            if not np.allclose(np.atleast_2d(np.asarray(vals[nme])), np.atleast_2d(m[nme]), rtol=1e-13, atol=1e-13): problems.append((step,"db value "+nme, vals[nme], m[nme]))
        elif len(p.database): problems.append((step, "db used while off", None, None))
    # memoization of the user callable f
    if cfg["db"]:
        for (nm, xb), c in calls.items():
            if c>1 and (nm=="f" or cfg["storejac"]): problems.append(("end", f"{nm} called {c} times at one point", None, None))
    return problems
if __name__=="__main__":
    depth=int(sys.argv[1]); OPS=[(fn,k,i) for fn in ("f","g") for k in ("val","jac") for i in range(3)]
    for norm,db,rnd,sj in itertools.product((True,False),(True,False),(True,False),(True,False)):
        cfg=dict(norm=norm,db=db,round=rnd,storejac=sj); t=time.time(); n=0; bad=collections.Counter(); ex={}
        for L in range(1,depth+1):
            for hist in itertools.product(OPS, repeat=L):
                pr = run(cfg,hist); n+=1
                for q in pr: key=str(q[1])[:40]; bad[key]+=1; ex.setdefault(key,(hist,q))
        print(cfg, n, "hist", round(time.time()-t,1),"s", dict(bad))
        for k,v in ex.items(): print("    ", k, v[0], "got", v[1][2], "exp", v[1][3])
