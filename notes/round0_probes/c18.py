import logging, itertools, time, warnings
logging.disable(logging.CRITICAL); warnings.filterwarnings("ignore")
import numpy as np
from numpy import array
from gemseo.datasets.io_dataset import IODataset
from gemseo.mlearning.regression.algos.factory import RegressorFactory
from gemseo.mlearning.transformers.scaler.min_max_scaler import MinMaxScaler
from gemseo.mlearning.transformers.scaler.standard_scaler import StandardScaler
from gemseo.mlearning.transformers.scaler.scaler import Scaler
from gemseo.mlearning.transformers.dimension_reduction.pca import PCA
from gemseo.mlearning.transformers.pipeline import Pipeline
rng = np.random.default_rng(1)
X = rng.uniform(-1,2,(20,2)); Y = np.c_[np.sin(2*X[:,0])+X[:,1]**2, X[:,0]*X[:,1]+0.5*X[:,0]]
ds = IODataset(); ds.add_input_group(X, ["x"], {"x":2}); ds.add_output_group(Y, ["y"], {"y":2})
F = RegressorFactory()
def transformers():
    yield "none", {}
    yield "default", None
    for name, mk in [("minmax", MinMaxScaler), ("standard", StandardScaler), ("scaler", lambda: Scaler(offset=0.3, coefficient=2.)), ("pca2", lambda: PCA(n_components=2)), ("pipe", lambda: Pipeline(transformers=[MinMaxScaler(), PCA(n_components=2)]))]:
        yield "in:"+name, {"inputs": mk()}
        yield "out:"+name, {"outputs": mk()}
        yield "both:"+name, {"inputs": mk(), "outputs": mk()}
cases = [("LinearRegressor", {}), ("LinearRegressor", {"penalty_level":0.1}), ("PolynomialRegressor", {"degree":2}), ("PolynomialRegressor", {"degree":3}),
         ("RBFRegressor", {"function":"gaussian"}), ("RBFRegressor", {"function":"multiquadric","epsilon":0.7}), ("PCERegressor", {"degree":2}),
         ("MOERegressor", {}), ("RegressorChain", {}), ("OTGaussianProcessRegressor", {}), ("TPSRegressor", {}), ("GaussianProcessRegressor", {})]
q = [array([0.33,0.71]), array([1.2,-0.4])]
for name, kw in cases:
    for tname, tr in transformers():
        t=time.time()
        try:
            kws = dict(kw)
            if tr is not None: kws["transformer"] = tr
            m = F.create(name, ds, **kws)
            if name=="RegressorChain":
                m.add_algo("LinearRegressor"); m.add_algo("RBFRegressor", function="gaussian")
            m.learn()
            errs=[]
            for x in q:
                J = m.predict_jacobian(x); h=1e-5
                fd = array([(m.predict(x+h*e)-m.predict(x-h*e))/(2*h) for e in np.eye(2)]).T
                errs.append(abs(J-fd).max()/max(1,abs(fd).max()))
            flag = "" if max(errs)<1e-5 else "   <<<<<< MISMATCH"
            print(f"{name:28s} {str(kw):40s} {tname:14s} err={max(errs):.1e} {time.time()-t:.2f}s{flag}")
        except NotImplementedError as e:
            print(f"{name:28s} {str(kw):40s} {tname:14s} NotImplemented")
        except Exception as e:
            print(f"{name:28s} {str(kw):40s} {tname:14s} EXC {type(e).__name__}: {str(e)[:70]}")
