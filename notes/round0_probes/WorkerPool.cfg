CONSTANTS N = 3
W = 2
Fail = {}
INIT Init
NEXT Next
INVARIANT ExactlyOnce
