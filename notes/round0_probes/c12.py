import logging, os, sys, json, time, warnings
warnings.filterwarnings("ignore")
from numpy import array
import numpy as np
from gemseo import create_scenario, create_design_space
from gemseo.core.discipline import Discipline
from gemseo.algos.database import Database
logging.disable(logging.CRITICAL)
class D(Discipline):
    n = 0; crash_at = None
    def __init__(self):
        super().__init__(name="D")
        self.input_grammar.update_from_names(["x"]); self.output_grammar.update_from_names(["f","g"])
        self.default_input_data = {"x": array([0.,0.])}
    def _run(self, input_data):
        D.n += 1; x = input_data["x"]
        if D.crash_at == D.n: os._exit(17)
        return {"f": array([(x[0]-1)**2 + (x[1]-2)**2]), "g": array([x[0]+x[1]-2.])}
    def _compute_jacobian(self, input_names=(), output_names=()):
        x = self.io.data["x"]
        self.jac = {"f": {"x": array([[2*(x[0]-1), 2*(x[1]-2)]])}, "g": {"x": array([[1.,1.]])}}
def mk(path, kind, load=False, **kw):
    ds = create_design_space(); ds.add_variable("x", 2, lower_bound=-5., upper_bound=5., value=array([0.,0.]))
    s = create_scenario([D()], "f", ds, formulation_name="DisciplinaryOpt", scenario_type=kind)
    s.add_constraint("g", constraint_type="ineq")
    s.set_optimization_history_backup(path, load=load, **kw)
    return s
def ex(s, kind, norm):
    if kind=="MDO": s.execute(algo_name="SLSQP", max_iter=15, normalize_design_space=norm)
    else: s.execute(algo_name="PYDOE_FULLFACT", n_samples=9)
def snap(db): return [(x.wrapped_array.tolist(), {k: np.asarray(v).tolist() for k,v in vals.items()}) for x,vals in db.items()]
path="/tmp/proto/bk2.h5"
for kind in ("MDO","DOE"):
  for mode in (dict(at_each_iteration=False, at_each_function_call=True), dict(at_each_iteration=True, at_each_function_call=False)):
    for norm in ((False,True) if kind=="MDO" else (True,)):
        if os.path.exists(path): os.remove(path)
        D.n=0; D.crash_at=None
        s = mk(path, kind, **mode); log=[]
        pb = s.formulation.optimization_problem
        pb.database.add_store_listener(lambda x: log.append((D.n, "store", snap(pb.database))))
        pb.database.add_new_iter_listener(lambda x: log.append((D.n, "iter", snap(pb.database))))
        ex(s, kind, norm); K = D.n; ref = snap(pb.database)
        res=[]
        for k in range(1, K+1):
            if os.path.exists(path): os.remove(path)
            pid=os.fork()
            if pid==0:
                D.n=0; D.crash_at=k; s=mk(path, kind, **mode); ex(s, kind, norm); os._exit(0)
            os.waitpid(pid,0)
            got = snap(Database.from_hdf(path)) if os.path.exists(path) else []
            ev = "store" if mode["at_each_function_call"] else "iter"
            # note: listeners registered AFTER backup listener, so the snapshot at the event equals what the backup saw
            cands = [sn for (n, e, sn) in log if e==ev and n < k]
            exp = cands[-1] if cands else []
            okp = (got == exp)
            # restart
            D.n=0; D.crash_at=None
            s=mk(path, kind, load=True, **mode) ; ex(s, kind, norm)
            final = snap(s.formulation.optimization_problem.database)
            res.append((k, okp, D.n, final==ref))
        print(kind, mode, "norm",norm, "K",K, "prefix ok:", all(r[1] for r in res), "restart execs:", [r[2] for r in res], "final==ref:", [r[3] for r in res])
        bad=[r for r in res if not r[1]]
        if bad: print("   first bad k", bad[0][0])
