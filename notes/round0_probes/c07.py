import logging, itertools, time, warnings, sys, collections
logging.disable(logging.CRITICAL); warnings.filterwarnings("ignore")
sys.path.insert(0,"/tmp/proto")
import numpy as np
from numpy import array
from c06 import system, exact
from gemseo.mda.factory import MDAFactory
from gemseo.algos.linear_solvers.factory import LinearSolverLibraryFactory
F = MDAFactory(); x = array([0.7,-1.3])
n, sizes = 3, (2,1,2)
ref,names,sz = system(n,sizes); ysol,kappa,dydx = exact(ref,names,sz,x)
off={}; o=0
for nm in names: off[nm]=o; o+=sz[nm]
solvers = LinearSolverLibraryFactory().algorithms
res = collections.Counter(); t=time.time(); cnt=0
for solver, mode, mtype, lu in itertools.product(solvers, ("auto","direct","adjoint"), ("matrix","linear_operator"), (False,True)):
    if lu and mtype=="linear_operator": continue
    for outs in [c for r in (1,2,3) for c in itertools.combinations(names, r)]:
        discs,_,_ = system(n,sizes)
        try:
            mda = F.create("MDAGaussSeidel", discs, tolerance=1e-13, max_mda_iter=100, linear_solver=solver, use_lu_fact=lu, linear_solver_tolerance=1e-13)
            mda.matrix_type = mtype; mda.linearization_mode = mode
            mda.add_differentiated_inputs(["x"]); mda.add_differentiated_outputs(list(outs))
            J = mda.linearize({"x": x}); cnt+=1
            err = max(abs(np.asarray(J[nm]["x"].todense() if hasattr(J[nm]["x"],"todense") else J[nm]["x"]) - dydx[off[nm]:off[nm]+sz[nm]]).max() for nm in outs)
            key = "ok" if err < 1e-9 else f"ERR {solver} {mode} {mtype} lu={lu} err={err:.1e}"
        except Exception as e:
            key = f"EXC {solver} {mode} {mtype} lu={lu} {type(e).__name__}: {str(e)[:80]}"
        res[key]+=1
print(cnt, "cases", round(time.time()-t,1), "s")
for k,v in res.most_common(): print(v,k)
