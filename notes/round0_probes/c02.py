import logging, itertools, time, warnings, sys, collections, copy
logging.disable(logging.CRITICAL); warnings.filterwarnings("ignore")
import numpy as np
from numpy import array, inf
from gemseo.algos.design_space import DesignSpace
M = "_DesignSpace__"
def start(kind):
    ds = DesignSpace()
    if kind>=1: ds.add_variable("x", 1, lower_bound=0., upper_bound=1., value=0.5)
    if kind>=2: ds.add_variable("yy", 2, lower_bound=array([-1., 2.]), upper_bound=array([3., 2.]), value=array([0., 2.]))
    if kind>=3: ds.add_variable("n_3", 1, type_="integer", lower_bound=0, upper_bound=4, value=1)
    return ds
def ops_for(ds):
    names = ds.variable_names; out=[]
    for nm,size,tp,lb,ub,val in [("x",1,"float",0.,1.,0.5),("yy",2,"float",-1.,3.,None),("z_3",1,"integer",0,4,2),("w",2,"float",-inf,inf,1.),("q",1,"float",2.,2.,2.)]:
        if nm not in names: out.append(("add",nm,size,tp,lb,ub,val))
    for nm in names:
        out.append(("remove",nm)); out.append(("rename",nm,nm+"r")); out.append(("set_lb",nm)); out.append(("set_ub",nm))
        if ds.get_size(nm)>1: out.append(("filter_dim",nm,(1,))); out.append(("filter_dim",nm,(0,)))
        out.append(("set_var",nm))
    if len(names)>1: out.append(("filter",tuple(names[:1]))); out.append(("filter",tuple(names[1:])))
    out += [("init_missing",),("toggle_int",),("q_norm",),("q_bounds",),("q_cur",),("q_member",),("set_cur_arr",),("set_cur_dict",)]
    return out
def apply(ds, op):
    k=op[0]
    if k=="add": ds.add_variable(op[1], op[2], op[3], op[4], op[5], op[6])
    elif k=="remove": ds.remove_variable(op[1])
    elif k=="rename": ds.rename_variable(op[1], op[2])
    elif k=="set_lb": ds.set_lower_bound(op[1], ds.get_lower_bound(op[1]) - 1.) if np.isfinite(ds.get_lower_bound(op[1])).all() else ds.set_lower_bound(op[1], np.full(ds.get_size(op[1]), -5.))
    elif k=="set_ub": ds.set_upper_bound(op[1], ds.get_upper_bound(op[1]) + 1.) if np.isfinite(ds.get_upper_bound(op[1])).all() else ds.set_upper_bound(op[1], np.full(ds.get_size(op[1]), 7.))
    elif k=="filter_dim": ds.filter_dimensions(op[1], list(op[2]))
    elif k=="set_var": ds.set_current_variable(op[1], np.clip(np.full(ds.get_size(op[1]), 1.), ds.get_lower_bound(op[1]), ds.get_upper_bound(op[1])).astype(int if ds.get_type(op[1])=="integer" else float))
    elif k=="filter": ds.filter(list(op[1]))
    elif k=="init_missing": ds.initialize_missing_current_values()
    elif k=="toggle_int": ds.enable_integer_variables_normalization = not ds.enable_integer_variables_normalization
    elif k=="q_norm":
        if ds.dimension: ds.normalize_vect(np.zeros(ds.dimension))
    elif k=="q_bounds": ds.get_lower_bounds(); ds.get_upper_bounds()
    elif k=="q_cur":
        if ds.has_current_value: ds.get_current_value(normalize=True)
    elif k=="q_member":
        if ds.has_current_value: ds.check_membership(ds.get_current_value())
    elif k=="set_cur_arr":
        if ds.dimension: ds.set_current_value(np.clip(np.ones(ds.dimension), ds.get_lower_bounds(), ds.get_upper_bounds()))
    elif k=="set_cur_dict": ds.set_current_value({n: np.clip(np.ones(ds.get_size(n)), ds.get_lower_bound(n), ds.get_upper_bound(n)) for n in ds})
def canon(ds):
    d = ds.__dict__
    def a(v): return None if v is None else (np.asarray(v).dtype.str, np.asarray(v).shape, np.asarray(v).tobytes())
    return (tuple((n, v.size, str(v.type), a(v.lower_bound), a(v.upper_bound)) for n,v in ds._variables.items()),
            tuple((n, a(v)) for n,v in ds._current_value.items()), tuple((n,(r.start,r.stop)) for n,r in ds.names_to_indices.items()),
            tuple((n,a(v)) for n,v in ds.normalize.items()), d[M+"norm_data_is_computed"], a(d[M+"lower_bounds_array"]), a(d[M+"upper_bounds_array"]), a(d[M+"current_value_array"]), a(d[M+"norm_current_value_array"]), ds.enable_integer_variables_normalization, ds.dimension)
def invariants(ds0):
    ds = copy.deepcopy(ds0); bad=[]
    names = ds.variable_names; sizes=[ds.get_size(n) for n in names]
    if ds.dimension != sum(sizes): bad.append("I1 dimension")
    off=0
    for n,s in zip(names,sizes):
        r = ds.names_to_indices.get(n)
        if r is None or (r.start,r.stop)!=(off,off+s): bad.append("I2 names_to_indices"); break
        off+=s
    if list(ds.names_to_indices)!=names: pass  # dict order not demanded
    if names:
        lb = np.concatenate([ds.get_lower_bound(n) for n in names]); ub = np.concatenate([ds.get_upper_bound(n) for n in names])
        if not np.array_equal(ds.get_lower_bounds(), lb) or not np.array_equal(ds.get_upper_bounds(), ub): bad.append("I3 bounds array vs per-variable")
        try:
            ints = np.concatenate([[ds.get_type(n)=="integer"]*s for n,s in zip(names,sizes)])
            normable = np.isfinite(lb)&np.isfinite(ub)&(~ints | ds.enable_integer_variables_normalization)
            v = np.where(np.isfinite(lb), lb, -2.) + 0.25*np.where(normable, ub-lb, 1.)
            exp = v.copy(); f = np.where(ub-lb==0, 1., ub-lb); exp[normable] = (v[normable]-lb[normable])/f[normable]
            got = ds.normalize_vect(v)
            if not np.allclose(got, exp, rtol=1e-14, atol=1e-14): bad.append("I6 normalize_vect formula")
            back = ds.unnormalize_vect(got); expb = v.copy(); expb[ints]=np.round(expb[ints]); expb[normable & (ub==lb)] = lb[normable&(ub==lb)]
            if not np.allclose(back, expb, rtol=1e-14, atol=1e-14): bad.append("I6 unnormalize∘normalize")
        except Exception as e: bad.append(f"I6 EXC {type(e).__name__}")
        # membership
        try:
            inside = np.where(np.isfinite(lb), lb, -1.); inside = np.where(ints, np.round(inside), inside)
            ds.check_membership(inside); ds.check_membership({n: inside[ds.names_to_indices[n]] for n in names})
            if np.isfinite(ub).any():
                outp = inside.copy(); j = int(np.flatnonzero(np.isfinite(ub))[0]); outp[j] = ub[j] + 1.
                for form in ("arr","dict"):
                    try:
                        ds.check_membership(outp if form=="arr" else {n: outp[ds.names_to_indices[n]] for n in names}); bad.append(f"I7 membership accepts outside ({form})")
                    except ValueError: pass
        except Exception as e: bad.append(f"I7 EXC {type(e).__name__}: {str(e)[:50]}")
    if ds.has_current_value and names:
        try:
            cur = np.concatenate([np.atleast_1d(ds.get_current_value([n])) for n in names])
            if not np.array_equal(ds.get_current_value(), cur): bad.append("I4 current array vs per-variable")
            d = ds.get_current_value(as_dict=True)
            if list(d)!=names and set(d)!=set(names): bad.append("I4 current dict names")
            if not np.array_equal(ds.convert_dict_to_array(ds.convert_array_to_dict(cur)), cur): bad.append("I5 conversions")
        except Exception as e: bad.append(f"I4 EXC {type(e).__name__}: {str(e)[:50]}")
    return bad
if __name__=="__main__":
    depth=int(sys.argv[1]); t=time.time()
    seen=set(); frontier=collections.deque(); bad=collections.Counter(); ex={}; trans=0; rejected=collections.Counter()
    for kind in (0,1,2,3):
        ds=start(kind); seen.add(canon(ds)); frontier.append((ds,[("start",kind)]))
    while frontier:
        ds,hist = frontier.popleft()
        for op in ops_for(ds):
            nxt = copy.deepcopy(ds)
            try: apply(nxt, op)
            except Exception as e:
                key=f"{op[0]} raises {type(e).__name__}: {str(e)[:60]}"; rejected[key]+=1; ex.setdefault(key, hist+[op]); continue
            trans+=1
            for b in invariants(nxt): bad[b]+=1; ex.setdefault(b, hist+[op])
            k=canon(nxt)
            if k not in seen and len(hist) < depth:
                seen.add(k); frontier.append((nxt, hist+[op]))
    print("states",len(seen),"transitions",trans,round(time.time()-t,1),"s")
    for k,v in bad.most_common(): print("VIOL",v,k,ex[k])
    for k,v in rejected.most_common(): print("REJ",v,k,ex[k])
