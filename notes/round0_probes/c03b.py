import logging, time, sys, os, warnings; logging.disable(logging.CRITICAL); warnings.filterwarnings("ignore")
from numpy import array, nan
import numpy as np
from gemseo.algos.design_space import DesignSpace
from gemseo.algos.optimization_problem import OptimizationProblem
from gemseo.core.mdo_functions.mdo_function import MDOFunction
from gemseo.algos.opt.factory import OptimizationLibraryFactory
from gemseo.algos.doe.factory import DOELibraryFactory
import gemseo.algos.base_driver_library as bdl
def problem(constr, nan_region=False, raise_at=None):
    ds = DesignSpace(); ds.add_variable("x", 2, lower_bound=-2., upper_bound=3., value=array([1.5,-1.]))
    calls = {"f":[], "g":[]}
    def f(x):
        calls["f"].append(x.copy())
        if nan_region and x[0] < 1.0: return array([nan])
        return array([(x[0]-1)**2 + (x[1]-.5)**2 + x[0]*x[1]])
    def df(x): return array([2*(x[0]-1)+x[1], 2*(x[1]-.5)+x[0]])
    def g(x):
        calls["g"].append(x.copy())
        if raise_at is not None and len(calls["g"])==raise_at: raise ValueError("boom")
        return array([x[0]+x[1]-1.])
    p = OptimizationProblem(ds); p.objective = MDOFunction(f, "f", jac=df)
    if constr: p.add_constraint(MDOFunction(g, "g", jac=lambda x: array([[1.,1.]])), constraint_type=constr)
    return p, calls
fo = OptimizationLibraryFactory(); fd = DOELibraryFactory()
def npts(calls): return len({c.tobytes() for c in calls["f"]+calls["g"]})
print("--- two-run histories")
for a1,a2 in [("SLSQP","SLSQP"),("SLSQP","NLOPT_COBYLA"),("NLOPT_COBYLA","L-BFGS-B"),("NELDER-MEAD","SLSQP")]:
    for reset in (True, False):
        constr = "ineq" if "L-BFGS-B" not in (a1,a2) and "NELDER-MEAD" not in (a1,a2) else ""
        p, calls = problem(constr)
        r1 = fo.execute(p, algo_name=a1, max_iter=4); n1=len(p.database); c1=npts(calls)
        try:
            r2 = fo.execute(p, algo_name=a2, max_iter=4, reset_iteration_counters=reset); n2=len(p.database); c2=npts(calls)
            print(a1,a2,"reset",reset,"db after run1",n1,"after run2",n2,"new entries",n2-n1,"distinct pts",c1,c2, "counter", p.evaluation_counter.current, "OVER" if n2-n1>4 else "")
        except Exception as e: print(a1,a2,"reset",reset,"EXC",type(e).__name__,str(e)[:100])
print("--- NaN objective region")
for algo in ("SLSQP","NLOPT_COBYLA","NELDER-MEAD","L-BFGS-B","DIFFERENTIAL_EVOLUTION","COBYQA"):
    constr = "ineq" if algo in ("SLSQP","NLOPT_COBYLA","COBYQA","DIFFERENTIAL_EVOLUTION") else ""
    p, calls = problem(constr, nan_region=True)
    try:
        r = fo.execute(p, algo_name=algo, max_iter=10); print(algo, "db", len(p.database), "result", None if r is None else (r.x_opt, r.is_feasible, (r.message or "")[:60]))
    except Exception as e: print(algo, "EXC", type(e).__name__, str(e)[:120])
print("--- raising constraint")
for algo in ("SLSQP","NLOPT_COBYLA"):
    p, calls = problem("ineq", raise_at=3)
    try:
        r = fo.execute(p, algo_name=algo, max_iter=10); print(algo, "db", len(p.database), "result ok", r is not None)
    except Exception as e: print(algo, "EXC escaped:", type(e).__name__, str(e)[:80])
print("--- max_time with virtual clock")
class Clock:
    t=0.
    def __call__(self): Clock.t += 1.0; return Clock.t
bdl.time = Clock()
for algo in ("SLSQP","NELDER-MEAD"):
    p, calls = problem("" if algo=="NELDER-MEAD" else "ineq")
    r = fo.execute(p, algo_name=algo, max_iter=50, max_time=3.5); print(algo, "db", len(p.database), (r.message or "")[:70])
print("--- DOE failing sample + order")
p, calls = problem("ineq", raise_at=2)
fd.execute(p, algo_name="PYDOE_FULLFACT", n_samples=9); print("DOE db", len(p.database), "g calls", len(calls["g"]))
