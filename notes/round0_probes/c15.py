import logging, itertools, time, warnings, sys, collections, json, copy, pickle
sys.path.insert(0, "/tmp/proto/vendor")
logging.disable(logging.CRITICAL); warnings.filterwarnings("ignore")
import numpy as np
from numpy import array
import jsonschema
from gemseo.core.grammars.json_grammar import JSONGrammar
from gemseo.core.grammars.simple_grammar import SimpleGrammar
cast = getattr(JSONGrammar, "_JSONGrammar__cast_data_mapping")
def other(kind, cls):
    g = cls("o"); 
    if kind=="o1": g.update_from_names(["x","w"]); g.defaults["w"] = array([1.])
    else: g.update_from_types({"x": int, "n": str}); g.required_names.discard("n")
    return g
OPS = [("names",("x",)),("names",("y","z")),("types",{"x":int}),("types",{"n":str,"y":float}),("data",{"z":array([1.,2.])}),("data",{"n":"s"}),
       ("update","o1",False,()),("update","o2",False,("x",)),("restrict",("x",)),("restrict",("x","y")),("rename","x","u"),("rename","y","x"),("del","x"),("del","z"),
       ("ns","x","A"),("clear",),("copy",),("pickle",),("req_add","y"),("req_discard","x"),("default","x",array([3.])),("validate",),("schema",),("to_simple",)]
DATA = [{}, {"x": array([1.])}, {"x": 3}, {"x": array([1.]), "y": array([2.]), "z": array([1.,2.])}, {"x": "s", "n": "t"}, {"u": array([1.]), "y": 2.5}, {"x": array([1.]), "extra": 1}, {"A:x": array([1.])}]
def apply(g, op, cls):
    k = op[0]
    if k=="names": g.update_from_names(op[1])
    elif k=="types": g.update_from_types(op[1])
    elif k=="data": g.update_from_data(op[1])
    elif k=="update": g.update(other(op[1], cls), merge=op[2], excluded_names=op[3])
    elif k=="restrict": g.restrict_to(op[1])
    elif k=="rename": g.rename_element(op[1], op[2])
    elif k=="del": del g[op[1]]
    elif k=="ns": g.add_namespace(op[1], op[2])
    elif k=="clear": g.clear()
    elif k=="copy": g = g.copy()
    elif k=="pickle": g = pickle.loads(pickle.dumps(g))
    elif k=="req_add": g.required_names.add(op[1])
    elif k=="req_discard": g.required_names.discard(op[1])
    elif k=="default": g.defaults[op[1]] = op[2]
    elif k=="validate": g.validate({"x": array([1.])}, raise_exception=False)
    elif k=="schema":
        if hasattr(g, "schema"): g.schema
    elif k=="to_simple": g.to_simple_grammar()
    return g
def verdict(g, d):
    try: g.validate(d); return True
    except Exception: return False
def check(g, hist, problems, is_query):
    keys = set(g.keys())
    if not set(g.required_names) <= keys: problems.append(("required not subset", hist))
    if not set(g.defaults.keys()) <= keys: problems.append(("defaults not subset", hist))
    if isinstance(g, JSONGrammar):
        schema = json.loads(g.to_json()); V = jsonschema.validators.validator_for(schema)(schema)
        for d in DATA:
            ref = V.is_valid(cast(d)); got = verdict(g, d)
            if ref != got: problems.append((f"validate differs ref={ref} got={got} data={sorted(d)}", hist)); break
        cached = g.schema
        fresh = json.loads(g.to_json())
        if json.loads(json.dumps(cached, default=str)) != fresh: problems.append(("schema property != to_json", hist))
if __name__=="__main__":
    depth = int(sys.argv[1])
    for cls in (JSONGrammar, SimpleGrammar):
        t=time.time(); n=0; bad=collections.Counter(); ex={}; exc=collections.Counter()
        for L in range(1, depth+1):
            for hist in itertools.product(range(len(OPS)), repeat=L):
                g = cls("g"); ok=True
                try:
                    for i in hist: g = apply(g, OPS[i], cls)
                except (KeyError, ValueError, TypeError) as e:
                    exc[type(e).__name__]+=1; continue
                except Exception as e:
                    exc["OTHER:"+type(e).__name__+":"+str(e)[:60]]+=1; ex.setdefault("OTHER:"+type(e).__name__, [OPS[i] for i in hist]); continue
                n+=1; pr=[]
                try: check(g, hist, pr, False)
                except Exception as e: pr.append((f"check EXC {type(e).__name__}: {str(e)[:80]}", hist))
                for p in pr: bad[p[0][:70]]+=1; ex.setdefault(p[0][:70], [OPS[i] for i in p[1]])
        print(cls.__name__, n, "histories", round(time.time()-t,1), "s; rejected ops:", dict(exc))
        for k,v in bad.most_common(): print("   ", v, k, ex[k])
        for k,v in ex.items():
            if k.startswith("OTHER"): print("   exc example", k, v)
