import logging, itertools, warnings, collections
logging.disable(logging.CRITICAL); warnings.filterwarnings("ignore")
import numpy as np
from numpy import array
from gemseo.core.mdo_functions.mdo_function import MDOFunction
from gemseo.algos.aggregation.aggregation_func import aggregate_iks, aggregate_lower_bound_ks, aggregate_upper_bound_ks, aggregate_max, aggregate_sum_square, aggregate_positive_sum_square
g = MDOFunction(lambda x: array([x[0]**2 - 1, x[0]*x[1], x[1] - 0.5, -x[0]]), "g", jac=lambda x: array([[2*x[0],0.],[x[1],x[0]],[0.,1.],[-1.,0.]]), dim=4, f_type="ineq")
PTS=[array([1.3,-0.7]), array([0.2,2.]), array([-1.1,0.4]), array([0.,0.])]
def numjac(f,x):
    D=lambda h: array([(np.atleast_1d(f(x+h*e))-np.atleast_1d(f(x-h*e)))/(2*h) for e in np.eye(2)]).T
    a,b=D(1e-4),D(2e-4); return (4*a-b)/3, abs(a-b).max()
for name, agg, kw in [("IKS",aggregate_iks,{}),("lowerKS",aggregate_lower_bound_ks,{}),("upperKS",aggregate_upper_bound_ks,{}),("max",aggregate_max,{}),("sum2",aggregate_sum_square,{}),("possum2",aggregate_positive_sum_square,{})]:
    for idx in (None, [0,2], [1]):
        for scale in (1., array([1.,2.,0.5,3.])):
            try:
                a = agg(g, indices=idx, scale=scale, **kw) if name not in ("max",) else agg(g, indices=idx, scale=scale)
            except TypeError:
                a = agg(g, indices=idx)
            msgs=[]
            for x in PTS:
                vals = g.evaluate(x); sc = np.ones(4)*scale if np.isscalar(scale) else scale
                sel = vals if idx is None else vals[idx]; ss = sc if idx is None else sc[idx]
                m = (sel/ss).max() if name in ("IKS","lowerKS","upperKS","max") else None
                v = float(np.atleast_1d(a.evaluate(x))[0])
                if name=="lowerKS" and not v <= m+1e-12: msgs.append(f"lowerKS {v} > max {m}")
                if name=="upperKS" and not v >= m-1e-12: msgs.append(f"upperKS {v} < max {m}")
                if name=="max" and abs(v-m)>1e-12: msgs.append(f"max {v} != {m}")
                J=np.atleast_2d(a.jac(x)); Jn,est=numjac(a.evaluate,x)
                nonsmooth = name in ("max","possum2") 
                if J.shape!=Jn.shape or not np.allclose(J,Jn,rtol=1e-5,atol=1e-6+10*est):
                    if not nonsmooth or est<1e-6: msgs.append(f"jac at {x.tolist()} {J.round(5).tolist()} vs {Jn.round(5).tolist()}")
            print(f"{name:8s} idx={idx} scale={'vec' if not np.isscalar(scale) else 1.} ->", "ok" if not msgs else msgs[:2])
