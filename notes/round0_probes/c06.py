import logging, itertools, time, warnings, sys
logging.disable(logging.CRITICAL); warnings.filterwarnings("ignore")
import numpy as np
from numpy import array, zeros
sys.path.insert(0, "/tmp/proto")
from c09 import Lin
from gemseo.mda.factory import MDAFactory
from gemseo.core.discipline import Discipline

class LinC(Lin):
    """contractive: scale coupling blocks"""
    def __init__(self, name, ins, outs, sizes, seed, couplings):
        super().__init__(name, ins, outs, sizes, seed)
        for (o,i), M in self.M.items():
            if i in couplings: self.M[o,i] = M * 0.08
def system(n, sizes):
    # disciplines k produces y{k}; reads x and all other y (strongly connected complete graph)
    names = [f"y{k}" for k in range(n)]
    sz = {"x": 2, **{nm: sizes[k] for k,nm in enumerate(names)}}
    discs = [LinC(f"D{k}", ["x"]+[m for m in names if m!=names[k]], [names[k]], sz, seed=10+k, couplings=names) for k in range(n)]
    return discs, names, sz
def exact(discs, names, sz, x):
    N = sum(sz[n] for n in names); off = {}; o=0
    for n in names: off[n]=o; o+=sz[n]
    A = np.eye(N); b = zeros(N)
    for d in discs:
        y = d.outs[0]; r = slice(off[y], off[y]+sz[y])
        b[r] += d.c[y] + d.M[y,"x"] @ x
        for i in d.ins:
            if i!="x": A[r, off[i]:off[i]+sz[i]] -= d.M[y,i]
    sol = np.linalg.solve(A,b); kappa = np.linalg.norm(np.linalg.inv(A),2)
    dydx = np.linalg.solve(A, np.vstack([d.M[d.outs[0],"x"] for d in discs]))
    return {n: sol[off[n]:off[n]+sz[n]] for n in names}, kappa, dydx
if __name__ == '__main__':
    F = MDAFactory()
    x = array([0.7,-1.3])
    for n, sizes in [(2,(1,2)), (3,(2,1,2))]:
        ref_discs, names, sz = system(n, sizes); ysol, kappa, dydx = exact(ref_discs, names, sz, x)
        for cls, kw in [("MDAJacobi",{}),("MDAGaussSeidel",{}),("MDANewtonRaphson",{}),("MDAQuasiNewton",{"method":"broyden1"}),("MDAQuasiNewton",{"method":"hybr"}),("MDAQuasiNewton",{"method":"lm"}),("MDAGSNewton",{}),("MDAChain",{"inner_mda_name":"MDAJacobi"}),("MDAChain",{"inner_mda_name":"MDANewtonRaphson"})]:
            for acc in (["NoTransformation","Aitken","Secant","MinimumPolynomial","Alternate2Delta","AlternateDeltaSquared"] if cls in ("MDAJacobi","MDAGaussSeidel") else ["NoTransformation"]):
                for relax in ((0.8,1.0,1.2) if cls in ("MDAJacobi","MDAGaussSeidel","MDANewtonRaphson") else (1.0,)):
                    discs,_,_ = system(n, sizes); t=time.time()
                    try:
                        kws = dict(kw, tolerance=1e-12, max_mda_iter=200)
                        if cls in ("MDAJacobi","MDAGaussSeidel","MDANewtonRaphson"): kws.update(acceleration_method=acc, over_relaxation_factor=relax)
                        if cls=="MDAChain": kws["inner_mda_settings"] = {}
                        mda = F.create(cls, discs, **kws)
                        out = mda.execute({"x": x})
                        err = max(abs(out[nm]-ysol[nm]).max() for nm in names)
                        # linearize
                        mda.add_differentiated_inputs(["x"]); mda.add_differentiated_outputs(names)
                        J = mda.linearize({"x": x})
                        Jfull = np.vstack([np.asarray(J[nm]["x"].todense() if hasattr(J[nm]["x"],"todense") else J[nm]["x"]) for nm in names])
                        jerr = abs(Jfull-dydx).max()
                        flag = "" if err<1e-9*kappa*10 and jerr<1e-8 else "  <<<<"
                        print(f"n={n} {cls:18s} {str(kw):38s} {acc:22s} relax={relax} err={err:.1e} jerr={jerr:.1e} iters={len(mda.residual_history)} {time.time()-t:.2f}s{flag}")
                    except Exception as e:
                        print(f"n={n} {cls:18s} {str(kw):38s} {acc:22s} relax={relax} EXC {type(e).__name__}: {str(e)[:100]}")
