import logging, itertools, time, warnings, sys, collections
logging.disable(logging.CRITICAL); warnings.filterwarnings("ignore")
import numpy as np
from gemseo.core.discipline import Discipline
from gemseo.core.coupling_structure import CouplingStructure
class G(Discipline):
    def __init__(self, name, ins, outs):
        super().__init__(name=name); self.input_grammar.update_from_names(ins); self.output_grammar.update_from_names(outs)
    def _run(self, input_data): return {}
def build(n, edges, selfloops):
    discs=[]
    for i in range(n):
        ins = [f"y{j}_{i}" for j in range(n) if (j,i) in edges] + [f"x{i}"]
        outs = [f"y{i}_{j}" for j in range(n) if (i,j) in edges] + [f"o{i}"]
        if i in selfloops: ins.append(f"s{i}"); outs.append(f"s{i}")
        discs.append(G(f"D{i}", ins, outs))
    return discs
def oracle(n, edges):
    R = np.eye(n, dtype=bool)
    for (i,j) in edges: R[i,j]=True
    for k in range(n): R |= np.outer(R[:,k], R[k,:])
    scc = {i: frozenset(j for j in range(n) if R[i,j] and R[j,i]) for i in range(n)}
    return scc, R
def check(n, edges, selfloops):
    discs = build(n, edges, selfloops); cs = CouplingStructure(discs); seq = cs.sequence
    idx = {d: i for i,d in enumerate(discs)}
    scc,R = oracle(n, edges); bad=[]
    flat = [idx[d] for stage in seq for grp in stage for d in grp]
    if sorted(flat)!=list(range(n)): bad.append("each discipline exactly once")
    stage_of={}
    for s,stage in enumerate(seq):
        for grp in stage:
            members = frozenset(idx[d] for d in grp)
            if any(scc[m]!=members for m in members): bad.append("groups are exactly SCCs")
            for m in members: stage_of[m]=s
    for (i,j) in edges:
        if scc[i]!=scc[j] and not stage_of[i] < stage_of[j]: bad.append("producer strictly before consumer")
    strong = set(); 
    for i in range(n):
        for j in scc[i]:
            if (i,j) in edges and i!=j: strong.add(f"y{i}_{j}")
        if i in selfloops: strong.add(f"s{i}")
    if set(cs.strong_couplings)!=strong: bad.append(f"strong couplings {sorted(cs.strong_couplings)} vs {sorted(strong)}")
    allc = {f"y{i}_{j}" for (i,j) in edges} | {f"s{i}" for i in selfloops}
    if set(cs.all_couplings)!=allc: bad.append("all couplings")
    return bad
if __name__=="__main__":
    for n in (2,3,4):
        pairs=[(i,j) for i in range(n) for j in range(n) if i!=j]; t=time.time(); cnt=0; bad=collections.Counter(); ex={}
        loops_sets = [()] if n==4 else [c for r in range(n+1) for c in itertools.combinations(range(n), r)]
        for mask in range(2**len(pairs)):
            edges={p for b,p in enumerate(pairs) if mask>>b&1}
            for loops in loops_sets:
                for b in check(n, edges, set(loops)): bad[b[:40]]+=1; ex.setdefault(b[:40],(sorted(edges),loops))
                cnt+=1
        print("n",n,cnt,"graphs",round(time.time()-t,1),"s",dict(bad)); [print("   ",k,v) for k,v in ex.items()]
