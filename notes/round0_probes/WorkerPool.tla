---------------------------- MODULE WorkerPool ----------------------------
EXTENDS Naturals, Sequences, FiniteSets
CONSTANTS N, W, Fail
VARIABLES qin, busy, qout, placed, called
vars == <<qin, busy, qout, placed, called>>
Tasks == 1..N
Init == /\ qin = [i \in 1..N |-> i]
        /\ busy = [w \in 1..W |-> 0]
        /\ qout = <<>>
        /\ placed = {}
        /\ called = <<>>
Take(w) == /\ busy[w] = 0 /\ Len(qin) > 0
           /\ busy' = [busy EXCEPT ![w] = Head(qin)]
           /\ qin' = Tail(qin)
           /\ UNCHANGED <<qout, placed, called>>
Finish(w) == /\ busy[w] # 0
             /\ qout' = Append(qout, busy[w])
             /\ busy' = [busy EXCEPT ![w] = 0]
             /\ UNCHANGED <<qin, placed, called>>
Collect == /\ Len(qout) > 0
           /\ LET i == Head(qout) IN
                /\ placed' = placed \cup {i}
                /\ called' = IF i \in Fail THEN called ELSE Append(called, i)
           /\ qout' = Tail(qout)
           /\ UNCHANGED <<qin, busy>>
Next == \/ \E w \in 1..W : Take(w) \/ Finish(w)
        \/ Collect
Spec == Init /\ [][Next]_vars
Done == placed = Tasks
ExactlyOnce == \A i \in Tasks : Cardinality({k \in 1..Len(called) : called[k] = i}) <= 1
=============================================================================
