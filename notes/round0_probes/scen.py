import time; t0=time.time()
import logging, os, sys
from numpy import array
from gemseo import create_scenario, create_design_space, configure_logger
from gemseo.core.discipline import Discipline
from gemseo.algos.database import Database
print("import", round(time.time()-t0,2))
logging.disable(logging.CRITICAL)
class D(Discipline):
    n = 0; crash_at = None; pts=[]
    def __init__(self):
        super().__init__(name="D")
        self.input_grammar.update_from_names(["x"]); self.output_grammar.update_from_names(["f","g"])
        self.default_input_data = {"x": array([0.,0.])}
    def _run(self, input_data):
        D.n += 1; x = input_data["x"]; D.pts.append(x.copy())
        if D.crash_at == D.n: os._exit(17)
        return {"f": array([(x[0]-1)**2 + (x[1]-2)**2]), "g": array([x[0]+x[1]-2.])}
    def _compute_jacobian(self, input_names=(), output_names=()):
        x = self.io.data["x"]
        self.jac = {"f": {"x": array([[2*(x[0]-1), 2*(x[1]-2)]])}, "g": {"x": array([[1.,1.]])}}
def mk(path, load=False, **kw):
    ds = create_design_space(); ds.add_variable("x", 2, lower_bound=-5., upper_bound=5., value=array([0.,0.]))
    s = create_scenario([D()], "f", ds, formulation_name="DisciplinaryOpt")
    s.add_constraint("g", constraint_type="ineq")
    s.set_optimization_history_backup(path, load=load, **kw)
    return s
path="/tmp/proto/bk.h5"
if os.path.exists(path): os.remove(path)
t=time.time(); s = mk(path); s.execute(algo_name="SLSQP", max_iter=20, normalize_design_space=False); print("full run", round(time.time()-t,2), "execs", D.n, "db", len(s.formulation.optimization_problem.database))
ref = Database.from_hdf(path)
print(len(ref), ref.get_function_names(False))
# crash
for k in (1,3,5):
    os.remove(path); D.n=0; D.pts=[]
    pid=os.fork()
    if pid==0:
        D.crash_at=k; s=mk(path); s.execute(algo_name="SLSQP", max_iter=20, normalize_design_space=False); os._exit(0)
    _,st=os.waitpid(pid,0)
    db = Database.from_hdf(path) if os.path.exists(path) else None
    print("crash at",k,"exit",os.WEXITSTATUS(st),"backup entries", None if db is None else [(x.wrapped_array.tolist(), sorted(v)) for x,v in db.items()])
    # restart
    D.n=0; D.pts=[]; D.crash_at=None
    s=mk(path, load=True); s.execute(algo_name="SLSQP", max_iter=20, normalize_design_space=False)
    pb=s.formulation.optimization_problem
    print("  restart execs", D.n, "db", len(pb.database), "same as ref", [x.wrapped_array.tolist() for x in pb.database]==[x.wrapped_array.tolist() for x in ref], "f_opt", pb.solution.f_opt)
