import logging, time, sys, os; logging.disable(logging.CRITICAL)
import warnings; warnings.filterwarnings("ignore")
from numpy import array
import numpy as np
from gemseo.algos.design_space import DesignSpace
from gemseo.algos.optimization_problem import OptimizationProblem
from gemseo.core.mdo_functions.mdo_function import MDOFunction
from gemseo.algos.opt.factory import OptimizationLibraryFactory
from gemseo.algos.doe.factory import DOELibraryFactory
def problem(constr):
    ds = DesignSpace(); ds.add_variable("x", 2, lower_bound=-2., upper_bound=3., value=array([1.5,-1.]))
    calls = {"f":[], "g":[]}
    def f(x): calls["f"].append(x.copy()); return array([(x[0]-1)**2 + (x[1]-.5)**2 + x[0]*x[1]])
    def df(x): return array([2*(x[0]-1)+x[1], 2*(x[1]-.5)+x[0]])
    def g(x): calls["g"].append(x.copy()); return array([x[0]+x[1]-1.])
    p = OptimizationProblem(ds)
    p.objective = MDOFunction(f, "f", jac=df)
    if constr: p.add_constraint(MDOFunction(g, "g", jac=lambda x: array([[1.,1.]])), constraint_type=constr)
    return p, calls
fo = OptimizationLibraryFactory()
for N in (1,3):
  for algo in fo.algorithms:
    for constr in ("", "ineq", "eq"):
        p, calls = problem(constr)
        if not fo.is_algorithm_suited(algo, p) if hasattr(fo,"is_algorithm_suited") else False:
            continue
        t=time.time()
        try:
            r = fo.execute(p, algo_name=algo, max_iter=N)
            npts = len({c.tobytes() for c in calls["f"]+calls["g"]})
            print(f"N={N} {algo:30s} {constr or 'none':5s} db={len(p.database)} distinct_pts={npts} res={'None' if r is None else 'ok'} {time.time()-t:.2f}s" + ("  <<< OVER" if len(p.database)>N or npts>N else ""))
        except Exception as e:
            print(f"N={N} {algo:30s} {constr or 'none':5s} EXC {type(e).__name__}: {str(e)[:90]}")
