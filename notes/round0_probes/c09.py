import logging, itertools, time, sys, collections
logging.disable(logging.CRITICAL)
import numpy as np
from numpy import array, zeros
from gemseo.core.discipline import Discipline
from gemseo.core.chains.chain import MDOChain
from gemseo.core.chains.parallel_chain import MDOParallelChain

class Lin(Discipline):
    """y_o = sum_i M[o,i] x_i + c_o  with fixed integer coefficient blocks."""
    def __init__(self, name, ins, outs, sizes, seed):
        super().__init__(name=name)
        self.ins, self.outs, self.sizes = list(ins), list(outs), sizes
        self.input_grammar.update_from_names(self.ins); self.output_grammar.update_from_names(self.outs)
        rng = np.random.default_rng(seed)
        self.M = {(o,i): rng.integers(-3,4,(sizes[o],sizes[i])).astype(float) for o in outs for i in ins}
        self.c = {o: rng.integers(-2,3,sizes[o]).astype(float) for o in outs}
        self.default_input_data = {i: np.ones(sizes[i]) for i in ins}
    def f(self, data):
        return {o: sum(self.M[o,i] @ data[i] for i in self.ins) + self.c[o] for o in self.outs}
    def _run(self, input_data):
        return self.f(input_data)
    def _compute_jacobian(self, input_names=(), output_names=()):
        self.jac = {o: {i: self.M[o,i].copy() for i in self.ins} for o in self.outs}

def reference(discs, chain_inputs, sizes, x):
    """forward accumulation: returns values and d value / d chain input"""
    val = dict(x); D = {v: {u: (np.eye(sizes[v]) if u==v else zeros((sizes[v],sizes[u]))) for u in chain_inputs} for v in chain_inputs}
    for d in discs:
        newv = d.f(val); newD = {}
        for o in d.outs:
            newD[o] = {u: sum(d.M[o,i] @ D[i][u] for i in d.ins) for u in chain_inputs}
        val.update(newv); D.update(newD)
    return val, D

def run_case(names, specs, sizes):
    discs = [Lin(f"D{k}", ins, outs, sizes, seed=k+1) for k,(ins,outs) in enumerate(specs)]
    chain = MDOChain(discs)
    cin = list(chain.input_grammar); cout = list(chain.output_grammar)
    x = {n: np.arange(1, sizes[n]+1, dtype=float)*0.5 for n in cin}
    val, D = reference(discs, cin, sizes, x)
    try:
        jac = chain.linearize(x, compute_all_jacobians=True)
    except Exception as e:
        return ("EXC", type(e).__name__, str(e)[:80])
    bad = []
    for o in cout:
        for u in cin:
            got = jac[o][u]; got = got.toarray() if hasattr(got,"toarray") else np.asarray(got)
            if got.shape != D[o][u].shape or not np.allclose(got, D[o][u], atol=1e-9): bad.append((o,u))
    # values
    out = chain.execute(x)
    vbad = [o for o in cout if not np.allclose(out[o], val[o])]
    return ("BAD", bad, vbad) if bad or vbad else ("OK",)

if __name__ == "__main__":
    pool = ["a","b","c","d"]
    subsets = [s for r in range(1,3) for s in itertools.combinations(pool, r)]  # up to 2 names per side
    t=time.time(); n=0; res=collections.Counter(); examples={}
    sizes = {"a":1,"b":2,"c":1,"d":2}
    for ins1, outs1, ins2, outs2 in itertools.product(subsets, repeat=4):
        specs = [(ins1,outs1),(ins2,outs2)]
        r = run_case(pool, specs, sizes); n+=1
        key = r[0]
        if r[0]=="BAD":
            ow1 = set(ins1)&set(outs1); # overwritten-and-read in D0
            key = "BAD" + ("/selfcoupled0" if ow1 else "") + ("/selfcoupled1" if set(ins2)&set(outs2) else "") + ("/d1-overwrites-d0out" if set(outs1)&set(outs2) else "") + ("/d1-overwrites-chain-input" if (set(outs2) & (set(ins1)-set(outs1))) else "")+("/d0-overwrites-own-nonread" if False else "")
        if r[0]=="EXC": key = "EXC:"+r[1]
        res[key]+=1; examples.setdefault(key, (specs, r))
    print(n, "cases", round(time.time()-t,1), "s")
    for k,v in res.most_common(): print(v, k, examples[k])
