import logging, warnings, pickle, time
logging.disable(logging.CRITICAL); warnings.filterwarnings("ignore")
import numpy as np
from gemseo.disciplines.factory import DisciplineFactory
from gemseo.mda.factory import MDAFactory
from gemseo.core.chains.chain import MDOChain
from gemseo.core.chains.parallel_chain import MDOParallelChain
f = DisciplineFactory()
names = ['Aerodynamics','IshigamiDiscipline','Mission','PropaneComb1','PropaneReaction','RosenMF','Sellar1','Sellar2','SellarSystem','SobieskiAerodynamics','SobieskiMission','SobieskiPropulsion','SobieskiStructure','Structure','SobieskiChain','SobieskiMDAGaussSeidel','SobieskiMDAJacobi']
def same(a,b):
    if set(a)!=set(b): return False
    return all(np.array_equal(np.asarray(a[k]), np.asarray(b[k])) if not isinstance(a[k], str) else a[k]==b[k] for k in a)
def jsame(a,b):
    try: return all(np.allclose(np.asarray(a[o][i].todense() if hasattr(a[o][i],"todense") else a[o][i]), np.asarray(b[o][i].todense() if hasattr(b[o][i],"todense") else b[o][i])) for o in a for i in a[o]) and set(a)==set(b)
    except Exception as e: return f"EXC {e}"
def shared_arrays(x, y):
    ids=set()
    def walk(o, acc, depth=0, seen=None):
        seen = seen if seen is not None else set()
        if id(o) in seen or depth>6: return
        seen.add(id(o))
        if isinstance(o, np.ndarray): acc.add(id(o)); return
        if isinstance(o, dict):
            for v in o.values(): walk(v, acc, depth+1, seen)
        elif isinstance(o, (list,tuple,set)):
            for v in o: walk(v, acc, depth+1, seen)
        elif hasattr(o, "__dict__"):
            for v in vars(o).values(): walk(v, acc, depth+1, seen)
    a,b=set(),set(); walk(x,a); walk(y,b); return len(a&b)
for n in names:
    for when in ("fresh","after_exec","after_lin"):
        try:
            d = f.create(n); t=time.time()
            if when!="fresh": d.execute()
            if when=="after_lin": d.linearize(compute_all_jacobians=True)
            r = pickle.loads(pickle.dumps(d))
            o1 = dict(d.execute()); o2 = dict(r.execute())
            g = (set(d.input_grammar)==set(r.input_grammar), set(d.output_grammar)==set(r.output_grammar), same(dict(d.default_input_data), dict(r.default_input_data)))
            j1 = d.linearize(compute_all_jacobians=True); j2 = r.linearize(compute_all_jacobians=True)
            st = (d.execution_statistics.n_executions, r.execution_statistics.n_executions)
            print(f"{n:26s} {when:10s} out_same={same(o1,o2)} jac_same={jsame(j1,j2)} grammars={g} shared_arrays={shared_arrays(d,r)} nexec={st}")
        except Exception as e:
            print(f"{n:26s} {when:10s} EXC {type(e).__name__}: {str(e)[:100]}")
