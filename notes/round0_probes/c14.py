import logging, time; logging.disable(logging.CRITICAL)
import warnings; warnings.filterwarnings("ignore")
from numpy import array
import numpy as np
from gemseo.algos.design_space import DesignSpace
from gemseo.algos.doe.factory import DOELibraryFactory
f = DOELibraryFactory()
def space(kind):
    ds = DesignSpace()
    ds.add_variable("a", 1, lower_bound=-3., upper_bound=-1.)
    if kind=="mixed": ds.add_variable("n", 1, type_="integer", lower_bound=2, upper_bound=7)
    ds.add_variable("bb", 2, lower_bound=array([10., 0.]), upper_bound=array([10.5, 1e-3]))
    return ds
for algo in f.algorithms:
    lib = f.create(algo)
    fields = lib.ALGORITHM_INFOS[algo].Settings.model_fields
    req = [k for k,v in fields.items() if v.is_required()]
    for kind in ("float","mixed"):
        ds = space(kind)
        kw = {}
        if "n_samples" in fields: kw["n_samples"]=7
        if "seed" in fields: kw["seed"]=3
        t=time.time()
        try:
            s1 = f.create(algo).compute_doe(ds, **kw); s2 = f.create(algo).compute_doe(ds, **kw)
            lb, ub = ds.get_lower_bounds(), ds.get_upper_bounds()
            inb = bool(((s1>=lb)&(s1<=ub)).all()); 
            isint = True if kind=="float" else bool((s1[:,1]==np.round(s1[:,1])).all())
            print(f"{algo:18s} {kind:5s} n={len(s1):3d} inbounds={inb} ints={isint} repro={np.array_equal(s1,s2)} req={req} {time.time()-t:.2f}s")
        except Exception as e:
            print(f"{algo:18s} {kind:5s} EXC {type(e).__name__}: {str(e)[:100]} req={req}")
