"""Throwaway feasibility prototype: cooperative scheduler for CallableParallelExecution (thread mode)."""
import threading, sys, collections, itertools, time
import gemseo.core.parallel_execution.callable_parallel_execution as cpe

class Deadlock(Exception): pass

class Sched:
    def __init__(self, choices):
        self.choices = list(choices); self.pos = 0
        self.trace = []      # (enabled ids, chosen)
        self.threads = {}    # id -> state dict
        self.current = None
        self.lock = threading.Lock()
        self.nid = 0
    def register_main(self):
        t = dict(id=0, sem=threading.Semaphore(0), blocked=None, done=False, name="main")
        self.threads[0] = t; self.current = 0; self.nid = 1
        threading.current_thread()._vt = t
    def me(self): return threading.current_thread()._vt
    def enabled(self):
        out = []
        for i, t in sorted(self.threads.items()):
            if t["done"]: continue
            if t["blocked"] is not None and not t["blocked"](): continue
            out.append(i)
        return out
    def point(self, blocked=None):
        """Scheduling point: the current thread offers to yield; blocked = predicate to be false to continue."""
        me = self.me(); me["blocked"] = (lambda: blocked()) if blocked else None
        if blocked: me["blocked"] = lambda: not blocked()  # enabled when not blocked
        self.switch(me)
        me["blocked"] = None
    def switch(self, me):
        en = self.enabled()
        if not en: raise Deadlock()
        # canonical order: current first if enabled
        if me["id"] in en and not me["done"]:
            en = [me["id"]] + [i for i in en if i != me["id"]]
        if self.pos < len(self.choices):
            c = self.choices[self.pos]
            if c >= len(en): raise RuntimeError("replay divergence")
        else:
            c = 0
        self.pos += 1
        self.trace.append((tuple(en), c))
        nxt = en[c]
        if nxt == me["id"]: return
        self.current = nxt
        self.threads[nxt]["sem"].release()
        if not me["done"]:
            me["sem"].acquire()
    def finish(self, me):
        me["done"] = True
        en = self.enabled()
        if not en: return
        self.switch(me)

S = None
class VQueue:
    def __init__(self): self.q = collections.deque()
    def put(self, item):
        S.point(); self.q.append(item)
    def get(self):
        S.point(blocked=lambda: not self.q)
        return self.q.popleft()
    def task_done(self): pass
class VThread:
    def __init__(self, target, args=(), name=None):
        self.target, self.args, self.name = target, args, name; self.daemon=True
        self.vt = None
    def start(self):
        vt = dict(id=S.nid, sem=threading.Semaphore(0), blocked=None, done=False, name=self.name); S.nid += 1
        self.vt = vt; S.threads[vt["id"]] = vt
        def run():
            threading.current_thread()._vt = vt
            vt["sem"].acquire()
            try: self.target(*self.args)
            finally: S.finish(vt)
        self.real = threading.Thread(target=run, daemon=True); self.real.start()
        S.point()
    def join(self):
        S.point(blocked=lambda: not self.vt["done"])
class FakeQueueMod: Queue = VQueue
class FakeThMod: Thread = VThread

def run_once(choices, n_tasks, n_workers, fail=()):
    global S
    S = Sched(choices); S.register_main()
    cpe.queue = FakeQueueMod; cpe.th = FakeThMod
    log = []
    def mk(i):
        def w(x):
            if i in fail: raise ValueError(f"boom{i}")
            return x * 10
        return w
    workers = [mk(i) for i in range(n_tasks)]
    p = cpe.CallableParallelExecution(workers, n_processes=n_workers, use_threading=True)
    out = p.execute(list(range(1, n_tasks + 1)), exec_callback=lambda i, o: log.append((i, o)))
    return out, log, S.trace

def explore(n_tasks, n_workers, fail=(), bound=None, cap=200000):
    stack = [[]]; n = 0; outcomes = collections.Counter(); orders = collections.Counter()
    while stack:
        prefix = stack.pop()
        out, log, trace = run_once(prefix, n_tasks, n_workers, fail)
        n += 1
        outcomes[(tuple(out), tuple(sorted(log)))] += 1
        orders[tuple(i for i, _ in log)] += 1
        # preemption count
        for i in range(len(prefix), len(trace)):
            en, c = trace[i]
            pre = sum(1 for (e, cc) in trace[:i] if cc != 0 and True)  # deviations
            if bound is not None and pre + 1 > bound: continue
            for alt in range(1, len(en)):
                stack.append([cc for (_, cc) in trace[:i]] + [alt])
        if n >= cap: break
    return n, outcomes, orders

if __name__ == "__main__":
    import logging; logging.disable(logging.CRITICAL)
    import io, contextlib
    for (nt, nw, b) in [(2, 2, None), (3, 2, 2), (3, 2, 3), (3,3,2)]:
        t = time.time()
        with contextlib.redirect_stderr(io.StringIO()):
            n, oc, orders = explore(nt, nw, bound=b)
        print(nt, nw, "bound", b, "executions", n, "outcomes", len(oc), "callback orders", sorted(orders), f"{time.time()-t:.1f}s")
    with contextlib.redirect_stderr(io.StringIO()):
        n, oc, orders = explore(3, 2, fail=(1,), bound=2)
    print("fail", n, list(oc)[:3], sorted(orders))
