"""Evidence writer (EVIDENCE.schema.json)."""
from __future__ import annotations

import json
import sys
from pathlib import Path

ROOT = Path(__file__).resolve().parent.parent
SCHEMA = Path("/root/.vp/EVIDENCE.schema.json")


def write(prop: str, tier: str, seed: int, level: str, tally, meta: dict, wall_s: float, n_violations: int) -> Path:
    cov = {
        "evaluations": tally.evaluations,
        "distinct_nontrivial": len(tally.nontrivial),
        "distinct_cases": len(tally.distinct),
        "rule": meta.get("rule", ""),
        "samples": tally.samples[:6] or meta.get("samples", []),
        "exhaustive": bool(meta.get("exhaustive", False)),
        "distinct_outcomes": len(tally.outcomes),
        "outcomes": dict(tally.outcomes.most_common(40)),
        "counters": dict(tally.counters),
    }
    if level == "model_checking":
        cov["states"] = tally.states
        cov["transitions"] = tally.transitions
        cov["traces_validated_against_impl"] = tally.traces
    for k in ("bounds", "caps", "explanation", "engines", "not_built", "model"):
        if k in meta:
            cov[k] = meta[k]
    cov.update(tally.notes)
    ev = {
        "property_id": prop,
        "tier": tier,
        "seed": seed,
        "level": level,
        "coverage": cov,
        "assumptions": meta.get("assumptions", []),
        "wall_s": round(wall_s, 2),
        "violations": n_violations,
    }
    import os

    # VERIF_EVIDENCE_DIR: used when the checks are pointed at a scratch copy of the repository (seeded changes),
    # so that the committed evidence, which must come from /repo itself, is not overwritten
    out = Path(os.environ.get("VERIF_EVIDENCE_DIR") or (ROOT / "evidence")) / f"{prop}.json"
    out.parent.mkdir(exist_ok=True)
    out.write_text(json.dumps(ev, indent=1, sort_keys=False) + "\n")
    try:  # self-validation (never fatal for the verdict, but loud)
        sys.path.insert(0, str(ROOT / "vendor"))
        import jsonschema

        jsonschema.validate(ev, json.loads(SCHEMA.read_text()))
    except ImportError:
        pass
    except Exception as e:  # pragma: no cover
        print(f"EVIDENCE-INVALID {prop}: {str(e)[:300]}", file=sys.stderr)
    return out
