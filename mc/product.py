"""E2: complete products and deviation-bounded enumerations of configuration axes."""
from __future__ import annotations

import itertools
from typing import Any, Iterator


def full(axes: dict[str, list]) -> Iterator[dict[str, Any]]:
    names = list(axes)
    for values in itertools.product(*(axes[n] for n in names)):
        yield dict(zip(names, values))


def deviations(axes: dict[str, list], k: int, defaults: dict[str, Any] | None = None) -> Iterator[dict[str, Any]]:
    """Every assignment differing from the default vector (first value of each axis) in at most k axes.

    Ordered by number of deviations (0, then 1, ...), so the first counter-example has the fewest.
    """
    names = list(axes)
    base = {n: (defaults[n] if defaults and n in defaults else axes[n][0]) for n in names}
    for d in range(0, k + 1):
        for subset in itertools.combinations(names, d):
            alts = [[v for v in axes[n] if v != base[n] or (isinstance(v, float) and v != v)] for n in subset]
            for values in itertools.product(*alts):
                case = dict(base)
                case.update(zip(subset, values))
                case["_deviations"] = d
                yield case


def nonempty_subsets(items: list) -> list[tuple]:
    out = []
    for r in range(1, len(items) + 1):
        out.extend(itertools.combinations(items, r))
    return out
