"""Tally (mergeable run statistics), context object, parallel map over long-lived fork workers."""
from __future__ import annotations

import collections
import hashlib
import itertools
import json
import multiprocessing
import os
import signal
import traceback
from typing import Any, Callable, Iterable

MAX_SAMPLES = 6


def digest(obj: Any) -> bytes:
    """8-byte digest of a canonical (repr-able / bytes) object."""
    if isinstance(obj, bytes):
        data = obj
    else:
        data = repr(obj).encode()
    return hashlib.blake2b(data, digest_size=8).digest()


def jsonable(obj: Any) -> Any:
    """Best-effort conversion to JSON-serialisable data (replay files, samples)."""
    import numpy as np

    if isinstance(obj, dict):
        return {str(k): jsonable(v) for k, v in obj.items()}
    if isinstance(obj, (list, tuple, set, frozenset)):
        return [jsonable(v) for v in obj]
    if isinstance(obj, np.ndarray):
        if obj.dtype.kind == "c":
            return {"__complex__": [[float(z.real), float(z.imag)] for z in obj.ravel()], "shape": list(obj.shape)}
        return jsonable(obj.tolist())
    if isinstance(obj, (np.integer,)):
        return int(obj)
    if isinstance(obj, (np.floating,)):
        return jsonable(float(obj))
    if isinstance(obj, (np.bool_,)):
        return bool(obj)
    if isinstance(obj, float):
        if obj != obj:
            return "nan"
        if obj in (float("inf"), float("-inf")):
            return "inf" if obj > 0 else "-inf"
        return obj
    if isinstance(obj, (str, int, bool)) or obj is None:
        return obj
    if isinstance(obj, bytes):
        return obj.hex()
    return repr(obj)


def sigkey(signature: dict) -> str:
    return json.dumps(jsonable(signature), sort_keys=True)


class Tally:
    """Mergeable statistics of one (part of a) run."""

    def __init__(self) -> None:
        self.evaluations = 0
        self.states = 0
        self.transitions = 0
        self.traces = 0
        self.nontrivial: set[bytes] = set()
        self.distinct: set[bytes] = set()
        self.outcomes: collections.Counter = collections.Counter()
        self.samples: list = []
        self.violations: dict[str, dict] = {}
        self.counters: collections.Counter = collections.Counter()
        self.notes: dict[str, Any] = {}
        self.sets: dict[str, set] = {}  # named sets, merged by union (not written to the evidence)

    # -- recording -------------------------------------------------------------------------
    def case(self, key: Any, nontrivial: bool = True, outcome: str | None = None, sample: Any = None) -> None:
        """Record one executed case. ``key`` identifies it (for distinct counting)."""
        self.evaluations += 1
        d = digest(key)
        self.distinct.add(d)
        if nontrivial:
            self.nontrivial.add(d)
        if outcome is not None:
            self.outcomes[outcome] += 1
        if sample is not None and len(self.samples) < MAX_SAMPLES:
            self.samples.append(jsonable(sample))

    def violation(self, signature: dict, case: Any, message: str) -> None:
        k = sigkey(signature)
        v = self.violations.get(k)
        if v is None:
            self.violations[k] = {"signature": jsonable(signature), "case": jsonable(case), "message": str(message)[:2000], "count": 1}
        else:
            v["count"] += 1

    def count(self, name: str, n: int = 1) -> None:
        self.counters[name] += n

    # -- merging ---------------------------------------------------------------------------
    def merge(self, other: "Tally") -> None:
        self.evaluations += other.evaluations
        self.states += other.states
        self.transitions += other.transitions
        self.traces += other.traces
        self.nontrivial |= other.nontrivial
        self.distinct |= other.distinct
        self.outcomes.update(other.outcomes)
        self.counters.update(other.counters)
        for s in other.samples:
            if len(self.samples) < MAX_SAMPLES:
                self.samples.append(s)
        for k, v in other.violations.items():
            if k in self.violations:
                self.violations[k]["count"] += v["count"]
            else:
                self.violations[k] = v
        for k, v in other.notes.items():
            self.notes.setdefault(k, v)
        for k, v in other.sets.items():
            self.sets.setdefault(k, set()).update(v)


# ------------------------------------------------------------------------------------------
# parallel map with long-lived fork workers
# ------------------------------------------------------------------------------------------
_FN: Callable | None = None
_TIMEOUT = 0


class CaseTimeout(Exception):
    pass


def _alarm(signum, frame):  # pragma: no cover
    raise CaseTimeout()


def _run_chunk(chunk: list) -> Tally:
    t = Tally()
    for case in chunk:
        try:
            if _TIMEOUT:
                signal.signal(signal.SIGALRM, _alarm)
                signal.alarm(_TIMEOUT)
            try:
                _FN(case, t)
            finally:
                if _TIMEOUT:
                    signal.alarm(0)
        except CaseTimeout:
            t.violation({"invariant": "harness-timeout"}, case, f"case did not finish within {_TIMEOUT}s")
        except Exception:  # a harness error is never a silent pass
            t.violation({"invariant": "harness-error", "where": traceback.format_exc().strip().splitlines()[-1][:120]}, case, traceback.format_exc())
    return t


def chunks(it: Iterable, n: int):
    it = iter(it)
    while True:
        c = list(itertools.islice(it, n))
        if not c:
            return
        yield c


def _worker_init():
    """Give each forked worker its own gemseo multiprocessing manager (created lazily on first use).

    gemseo keeps one process-wide ``SyncManager``; a manager inherited through fork is a single server process that
    every worker would talk to, which serialises every cache operation of every worker (measured: no speed-up at all
    from 4 to 14 workers on full-cache histories).  Objects created in the parent keep their own proxies.
    """
    import sys

    mod = sys.modules.get("gemseo.utils.multiprocessing.manager")
    if mod is not None and os.environ.get("VERIF_SHARED_MANAGER") != "1":
        setattr(mod, "__manager", None)


def _pool(jobs: int):
    """A fork pool whose workers are not daemonic (cases may start their own processes / managers)."""
    import multiprocessing.pool

    base = multiprocessing.get_context("fork")

    class _NoDaemonProcess(base.Process):
        @property
        def daemon(self):
            return False

        @daemon.setter
        def daemon(self, value):
            pass

    class _Ctx(type(base)):
        Process = _NoDaemonProcess

    return multiprocessing.pool.Pool(jobs, initializer=_worker_init, context=_Ctx())


def pmap(fn: Callable[[Any, Tally], None], cases: Iterable, tally: Tally, jobs: int = 16, chunk: int = 50, timeout: int = 0) -> None:
    """Run ``fn(case, tally)`` for every case on ``jobs`` forked workers; merge in case order."""
    global _FN, _TIMEOUT
    _FN, _TIMEOUT = fn, timeout
    if jobs <= 1:
        for c in chunks(cases, chunk):
            tally.merge(_run_chunk(c))
        return
    pool = _pool(jobs)
    try:
        for t in pool.imap(_run_chunk, chunks(cases, chunk)):
            tally.merge(t)
        pool.close()  # let the workers exit normally so that their own children (managers) are finalized
        pool.join()
    finally:
        pool.terminate()


_FN2: Callable | None = None


def _run_map(args):
    return _FN2(*args)


def pmap_raw(fn: Callable, arglist: Iterable[tuple], jobs: int = 16, chunk: int = 1) -> list:
    """Plain ordered parallel map (results must pickle)."""
    global _FN2
    _FN2 = fn
    arglist = list(arglist)
    if jobs <= 1 or len(arglist) <= 1:
        return [fn(*a) for a in arglist]
    pool = _pool(min(jobs, len(arglist)))
    try:
        out = pool.map(_run_map, arglist, chunksize=chunk)
        pool.close()
        pool.join()
        return out
    finally:
        pool.terminate()


class Ctx:
    """What a property module receives."""

    def __init__(self, prop: str, tier: str, seed: int, jobs: int, scratch: str) -> None:
        self.prop = prop
        self.tier = tier
        self.seed = seed
        self.jobs = jobs
        self.scratch = scratch
        self.tally = Tally()
        self.meta: dict[str, Any] = {}

    @property
    def thorough(self) -> bool:
        return self.tier == "thorough"

    def pick(self, alternatives: list):
        """Seed-rotated choice among equally valid alphabets (never changes the enumerated structure)."""
        return alternatives[self.seed % len(alternatives)]
