"""Bounded-exhaustive exploration machinery for the gemseo properties (see DESIGN.md section 2)."""
