"""E3: cooperative scheduler for real Python threads + stateless deviation-bounded schedule exploration.

The code under test reaches its concurrency through module-level names (``queue``, ``th``/``threading``) and
instance attributes (``lock``); the harness rebinds them to the fakes below.  Every virtual thread is a real
``threading.Thread`` parked on its own semaphore; exactly one runs at a time.  At every scheduling point the
scheduler computes the enabled set (a ``get`` on an empty queue, a ``join`` on a live thread and an ``acquire`` of
a lock held by another thread are *blocked*), orders it canonically (running thread first if still enabled, then
ascending ids) and follows the recorded choice prefix, then choice 0.  "No enabled thread" is a deadlock; more than
``horizon`` points is a livelock.  A divergence while replaying a prefix is a hard error.
"""
from __future__ import annotations

import collections
import contextlib
import io
import sys
import threading
from typing import Any, Callable

from .core import Tally, pmap_raw


class Abort(BaseException):
    """Unwinds parked virtual threads when an execution is abandoned."""


class Deadlock(Exception):
    pass


class Horizon(Exception):
    pass


class ReplayDivergence(Exception):
    pass


_S: "Scheduler | None" = None


def current() -> "Scheduler":
    return _S


class _VT:
    __slots__ = ("id", "sem", "blocked", "done", "name", "real", "error", "pending")

    def __init__(self, id_, name):
        self.id = id_
        self.sem = threading.Semaphore(0)
        self.blocked = None
        self.done = False
        self.name = name
        self.real = None
        self.error = None
        self.pending = ("begin", None)


class Scheduler:
    def __init__(self, prefix: list, horizon: int = 5000, policy=None) -> None:
        self.policy = policy  # optional guided choice: policy(scheduler, enabled ids) -> index (used instead of the prefix)
        self.prefix = list(prefix)  # list of [n_enabled, choice]
        self.pos = 0
        self.trace: list[tuple] = []  # (n_enabled, choice, kind, thread id running before, chosen id)
        self.threads: dict[int, _VT] = {}
        self.nid = 0
        self.aborted = False
        self.horizon = horizon
        self.failure: BaseException | None = None
        self.events: list = []  # harness-visible log (e.g. queue puts)
        self.queues: list = []
        main = self._new("main")
        main.real = threading.current_thread()
        self._tls = threading.local()
        self._tls.vt = main
        self.last_exit = None

    # -- threads ---------------------------------------------------------------------------
    def _new(self, name) -> _VT:
        vt = _VT(self.nid, name)
        self.threads[vt.id] = vt
        self.nid += 1
        return vt

    def me(self) -> _VT:
        return self._tls.vt

    def enabled(self) -> list[int]:
        out = []
        for i in sorted(self.threads):
            t = self.threads[i]
            if t.done:
                continue
            if t.blocked is not None and t.blocked():
                continue
            out.append(i)
        return out

    # -- scheduling points -----------------------------------------------------------------
    def point(self, kind: str, blocked: Callable[[], bool] | None = None, info: Any = None) -> None:
        if self.aborted:
            raise Abort()
        me = self.me()
        me.blocked = blocked
        me.pending = (kind, info)
        try:
            self._switch(me, kind)
        finally:
            me.blocked = None
        if self.aborted:
            raise Abort()

    def _choose(self, me: _VT, kind: str) -> int:
        en = self.enabled()
        if not en:
            self.failure = Deadlock(f"no enabled thread at point {len(self.trace)} ({kind}); threads="
                                    + ",".join(f"{t.id}:{t.name}:{'done' if t.done else 'blocked' if t.blocked else 'ready'}" for t in self.threads.values()))
            self._abort()
            raise Abort()
        if len(self.trace) >= self.horizon:
            self.failure = Horizon(f"more than {self.horizon} scheduling points")
            self._abort()
            raise Abort()
        if me.id in en and not me.done:
            en = [me.id] + [i for i in en if i != me.id]
        if self.policy is not None:
            c = self.policy(self, en)
            if c is None:
                self.failure = ReplayDivergence(f"guided replay stuck at point {len(self.trace)}")
                self._abort()
                raise Abort()
        elif self.pos < len(self.prefix):
            n_exp, c = self.prefix[self.pos]
            if n_exp != len(en) or c >= len(en):
                self.failure = ReplayDivergence(f"point {self.pos}: recorded {n_exp} enabled, now {len(en)}")
                self._abort()
                raise Abort()
        else:
            c = 0
        self.pos += 1
        nxt = en[c]
        self.trace.append((len(en), c, kind, me.id, nxt))
        return nxt

    def _switch(self, me: _VT, kind: str) -> None:
        nxt = self._choose(me, kind)
        if nxt == me.id:
            return
        self.threads[nxt].sem.release()
        if not me.done:
            me.sem.acquire()

    def _finish(self, me: _VT) -> None:
        me.done = True
        me.pending = ("done", None)
        if self.aborted:
            return
        if not self.enabled():
            # nothing else can run: if somebody is blocked forever it is a deadlock, reported by the main body end
            if any(not t.done for t in self.threads.values()):
                self.failure = Deadlock("thread exit leaves only blocked threads: "
                                        + ",".join(f"{t.id}:{t.name}" for t in self.threads.values() if not t.done))
                self._abort()
            return
        try:
            nxt = self._choose(me, "exit")
        except Abort:
            return
        self.threads[nxt].sem.release()

    def _abort(self) -> None:
        self.aborted = True
        for t in self.threads.values():
            if not t.done:
                t.sem.release()

    def spawn(self, target, args, kwargs, name) -> _VT:
        vt = self._new(name)

        def run():
            self._tls.vt = vt
            vt.sem.acquire()
            try:
                if self.aborted:
                    return
                target(*args, **(kwargs or {}))
            except Abort:
                pass
            except BaseException as e:  # uncaught exception in a virtual thread
                vt.error = e
            finally:
                self._finish(vt)

        vt.real = threading.Thread(target=run, daemon=True)
        vt.real.start()
        return vt


# ------------------------------------------------------------------------------------------
# fakes
# ------------------------------------------------------------------------------------------
class VQueue:
    def __init__(self, maxsize: int = 0) -> None:
        self.q = collections.deque()
        self.qid = len(_S.queues)
        _S.queues.append(self)

    def put(self, item, block=True, timeout=None):
        _S.point(f"q{self.qid}.put", info=item)
        self.q.append(item)
        _S.events.append(("put", self.qid, item))

    def get(self, block=True, timeout=None):
        _S.point(f"q{self.qid}.get", blocked=lambda: not self.q, info=self)
        item = self.q.popleft()
        _S.events.append(("get", self.qid, item))
        return item

    def task_done(self):
        pass

    def empty(self):
        return not self.q

    def qsize(self):
        return len(self.q)


class VThread:
    def __init__(self, group=None, target=None, name=None, args=(), kwargs=None, daemon=None):
        self._target, self._args, self._kwargs, self.name = target, args, kwargs, name
        self.daemon = daemon
        self._vt = None

    def start(self):
        self._vt = _S.spawn(self._target, self._args, self._kwargs, self.name)
        _S.point("start")

    def join(self, timeout=None):
        vt = self._vt
        _S.point("join", blocked=lambda: not vt.done)

    def is_alive(self):
        return self._vt is not None and not self._vt.done


class VLock:
    """Re-entrant virtual lock; acquire and release are scheduling points."""

    def __init__(self, name="lock"):
        self.owner = None
        self.count = 0
        self.name = name
        self.acquisitions = 0

    def acquire(self, blocking=True, timeout=-1):
        s = _S
        if s is None or s.aborted:
            return True
        me = s.me().id
        s.point(f"{self.name}.acquire", blocked=lambda: self.owner is not None and self.owner != me)
        self.owner = me
        self.count += 1
        self.acquisitions += 1
        return True

    def release(self):
        s = _S
        if s is None or s.aborted:
            return
        self.count -= 1
        if self.count == 0:
            self.owner = None
        s.point(f"{self.name}.release")

    __enter__ = acquire

    def __exit__(self, *a):
        self.release()


class FakeQueueModule:
    Queue = VQueue
    Empty = Exception


class FakeThreadingModule:
    Thread = VThread
    RLock = VLock
    Lock = VLock

    @staticmethod
    def current_thread():
        return threading.current_thread()


# ------------------------------------------------------------------------------------------
# one controlled execution
# ------------------------------------------------------------------------------------------
class Execution:
    __slots__ = ("result", "error", "trace", "failure", "events", "thread_errors", "n_threads")


def run(body: Callable[[], Any], prefix: list, patches: list[tuple], horizon: int = 5000, policy=None) -> Execution:
    """Run ``body`` in the main virtual thread under a fresh scheduler with ``patches`` [(obj, attr, fake)] applied."""
    global _S
    saved = [(o, a, getattr(o, a)) for o, a, _ in patches]
    s = Scheduler(prefix, horizon, policy)
    _S = s
    x = Execution()
    x.result = x.error = None
    err = io.StringIO()
    try:
        for o, a, f in patches:
            setattr(o, a, f)
        with contextlib.redirect_stderr(err):
            try:
                x.result = body()
            except Abort:
                pass
            except BaseException as e:
                x.error = e
    finally:
        for o, a, v in saved:
            setattr(o, a, v)
        leftovers = [t for t in s.threads.values() if t.id != 0 and not t.done]
        if leftovers and s.failure is None and x.error is None:
            s.failure = Deadlock("main body returned while threads are still alive: " + ",".join(f"{t.id}:{t.name}" for t in leftovers))
        if leftovers:
            s._abort()
        for t in s.threads.values():
            if t.real is not None and t.id != 0:
                t.real.join(timeout=5)
        _S = None
    x.trace = s.trace
    x.failure = s.failure
    x.events = s.events
    x.thread_errors = [(t.id, repr(t.error)) for t in s.threads.values() if t.error is not None]
    x.n_threads = len(s.threads)
    return x


# ------------------------------------------------------------------------------------------
# stateless DFS over schedules, deviation-bounded, sharded over processes
# ------------------------------------------------------------------------------------------
def children(prefix_len: int, trace: list, bound: int | None) -> list[list]:
    out = []
    dev = sum(1 for t in trace[:prefix_len] if t[1] != 0)
    for i in range(prefix_len, len(trace)):
        n_en, c = trace[i][0], trace[i][1]
        if bound is None or dev + 1 <= bound:
            base = [[t[0], t[1]] for t in trace[:i]]
            for alt in range(1, n_en):
                if alt != c:
                    out.append(base + [[n_en, alt]])
        if c != 0:
            dev += 1
    return out


_RUN1 = None


def _safe_run1(run1, p, t):
    """An oracle / harness exception is never a silent pass and never aborts the exploration."""
    try:
        return run1(p, t)
    except Exception:
        import traceback

        t.violation({"invariant": "harness-error", "where": traceback.format_exc().strip().splitlines()[-1][:120]}, {"schedule": p}, traceback.format_exc())
        return []


def _subtree(prefix, bound, cap):
    """DFS of the subtree rooted at ``prefix``; returns a Tally (check results are recorded by run1)."""
    t = Tally()
    stack = [prefix]
    n = 0
    while stack:
        p = stack.pop()
        trace = _safe_run1(_RUN1, p, t)
        n += 1
        stack.extend(children(len(p), trace, bound))
        if cap and n >= cap:
            t.notes["cap_hit"] = True
            t.count("capped_subtrees")
            break
    t.count("schedules", n)
    return t


def explore(run1: Callable[[list, Tally], list], bound: int | None, tally: Tally, jobs: int = 16, cap_per_subtree: int = 0) -> dict:
    """Explore every schedule with at most ``bound`` deviations (None = all).

    ``run1(prefix, tally)`` executes one schedule on the real code, checks it, records into ``tally`` and returns the trace.
    """
    global _RUN1
    _RUN1 = run1
    # sequential expansion until there are enough independent subtrees
    pending = [[]]
    done_seq = 0
    while pending and len(pending) < jobs * 6 and done_seq < 200:
        p = pending.pop(0)
        trace = _safe_run1(run1, p, tally)
        done_seq += 1
        pending.extend(children(len(p), trace, bound))
    tally.count("schedules", done_seq)
    if pending:
        for t in pmap_raw(_subtree, [(p, bound, cap_per_subtree) for p in pending], jobs=jobs):
            tally.merge(t)
    return {"deviation_bound": bound, "schedules": tally.counters["schedules"], "capped": bool(tally.counters.get("capped_subtrees"))}
