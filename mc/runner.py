"""./check <ID> [--tier quick|thorough] [--replay file] [--jobs N]"""
from __future__ import annotations

import argparse
import importlib
import json
import logging
import os
import shutil
import sys
import tempfile
import time
import warnings
from pathlib import Path

ROOT = Path(__file__).resolve().parent.parent


def main() -> int:
    ap = argparse.ArgumentParser()
    ap.add_argument("prop")
    ap.add_argument("--tier", default=os.environ.get("VERIF_TIER") or "quick", choices=["quick", "thorough"])
    ap.add_argument("--replay")
    ap.add_argument("--jobs", type=int, default=int(os.environ.get("VERIF_JOBS", "16")))
    ap.add_argument("--only", default=None, help="restrict to a named part of the check (debugging)")
    args = ap.parse_args()
    prop = args.prop.upper()
    try:
        seed = int(os.environ.get("VERIF_SEED", "0") or 0)
    except ValueError:
        seed = 0

    # the tree under test: /repo's working tree (gemseo is also installed editable from it)
    repo_src = os.environ.get("VERIF_REPO_SRC", "/repo/src")
    sys.path.insert(0, repo_src)
    sys.path.insert(0, str(ROOT))
    sys.path.append(str(ROOT / "vendor"))
    sys.path.append("/verif/vendor")  # snapshots of /verif (vp run) do not contain the vendored packages
    os.environ.setdefault("GEMSEO_VERIF", "1")
    logging.disable(logging.CRITICAL)
    warnings.filterwarnings("ignore")
    import faulthandler
    import signal

    faulthandler.register(signal.SIGUSR1, all_threads=True)  # kill -USR1 <pid> dumps the stacks (inherited by workers)

    from mc import evidence, findings
    from mc.core import Ctx

    scratch_base = os.environ.get("VERIF_SCRATCH") or ("/dev/shm" if os.path.isdir("/dev/shm") else None)
    scratch = tempfile.mkdtemp(prefix=f"verif_{prop}_", dir=scratch_base)
    ctx = Ctx(prop, args.tier, seed, args.jobs, scratch)
    ctx.only = args.only
    mod = importlib.import_module(f"props.{prop.lower()}")
    t0 = time.time()
    try:
        if args.replay:
            case = json.loads(Path(args.replay).read_text())
            res = mod.replay(case.get("case", case), ctx)
            print(json.dumps(res, indent=1, default=str))
            bad = bool(res.get("violations"))
            if bad:
                print(f"VIOLATION property={prop} replay={args.replay}")
            return 1 if bad else 0
        meta = mod.run(ctx) or {}
        ctx.meta.update(meta)
    finally:
        shutil.rmtree(scratch, ignore_errors=True)
    wall = time.time() - t0

    known = findings.load(prop)
    unlisted = []
    printed_known = set()
    for k, v in ctx.tally.violations.items():
        e = findings.match(known, v["signature"])
        if e is not None:
            if id(e) not in printed_known:
                printed_known.add(id(e))
                print(f"KNOWN-FINDING: property={prop} {e.get('what', '')}")
        else:
            unlisted.append(v)
    level = ctx.meta.get("level", getattr(mod, "LEVEL", "exploration"))
    evidence.write(prop, args.tier, seed, level, ctx.tally, ctx.meta, wall, len(unlisted))
    rdir = ROOT / "replays" / prop
    for i, v in enumerate(unlisted[:20]):
        rdir.mkdir(parents=True, exist_ok=True)
        path = rdir / f"run_{args.tier}_{i}.json"
        path.write_text(json.dumps({"property": prop, **v}, indent=1) + "\n")
        print(f"VIOLATION property={prop} replay={path}")
        print(f"  signature={json.dumps(v['signature'], sort_keys=True)} count={v['count']}")
        print("  " + v["message"].strip().replace("\n", "\n  ")[:1500])
    t = ctx.tally
    print(
        f"{prop} tier={args.tier} seed={seed} evaluations={t.evaluations} distinct_nontrivial={len(t.nontrivial)} "
        f"states={t.states} transitions={t.transitions} outcomes={len(t.outcomes)} "
        f"violations={len(unlisted)} known={len(printed_known)} wall={wall:.1f}s"
    )
    return 1 if unlisted else 0


def _reap_group() -> None:
    """Kill whatever is left in our process group (orphaned managers / workers of an abandoned case)."""
    import signal

    me, pg = os.getpid(), os.getpgrp()
    if pg != me:
        return
    for d in os.listdir("/proc"):
        if d.isdigit() and int(d) != me:
            try:
                if os.getpgid(int(d)) == pg:
                    os.kill(int(d), signal.SIGKILL)
            except OSError:
                pass


if __name__ == "__main__":
    try:
        os.setpgrp()
    except OSError:
        pass
    code = 1
    try:
        code = main()
    finally:
        sys.stdout.flush()
        sys.stderr.flush()
        _reap_group()
    sys.exit(code)
