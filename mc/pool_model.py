"""E5: TLC runner for models/WorkerPool.tla and extraction of every terminal behaviour."""
from __future__ import annotations

import re
import shutil
import subprocess
import tempfile
from pathlib import Path

MODELS = Path(__file__).resolve().parent.parent / "models"


def _set(xs) -> str:
    return "{" + ", ".join(str(x) for x in sorted(xs)) + "}"


def run_tlc(n: int, w: int, fail=(), reraise=(), scratch: str | None = None) -> dict:
    """Model-check WorkerPool for one constant assignment; return states, transitions and all terminal traces."""
    d = Path(tempfile.mkdtemp(prefix=f"tlc_{n}_{w}_", dir=scratch))
    try:
        shutil.copy(MODELS / "WorkerPool.tla", d / "WorkerPool.tla")
        (d / "WorkerPool.cfg").write_text(
            f"CONSTANTS N = {n}\nW = {w}\nFail = {_set(fail)}\nReraise = {_set(reraise)}\n"
            "INIT Init\nNEXT Next\nINVARIANT ExactlyOnce\nINVARIANT OnlySuccessful\nINVARIANT Positional\nINVARIANT RaisesIffReraise\n"
        )
        r = subprocess.run(
            ["tlc", "-workers", "1", "-noGenerateSpecTE", "-metadir", str(d / "meta"), "-dump", str(d / "states"), "WorkerPool"],
            cwd=d, capture_output=True, text=True, timeout=1800,
        )
        out = r.stdout
        ok = "Model checking completed. No error has been found." in out
        m = re.search(r"(\d+) states generated, (\d+) distinct states found, (\d+) states left", out)
        generated, distinct = (int(m.group(1)), int(m.group(2))) if m else (0, 0)
        depth = re.search(r"depth of the complete state graph search is (\d+)", out)
        traces = {}
        if ok:
            txt = (d / "states.dump").read_text()
            for b in txt.split("\n\n"):
                if 'pc = "done"' not in b:
                    continue
                h = re.search(r"hist = <<(.*?)>>", b, re.S).group(1).replace("\n", " ")
                hist = tuple(int(x) for x in h.split(",") if x.strip())
                called = re.search(r"called = <<(.*?)>>", b, re.S).group(1)
                placed = re.search(r"placed = \{(.*?)\}", b, re.S).group(1)
                stop = "stop = TRUE" in b
                traces[hist] = {
                    "called": [int(x) for x in called.split(",") if x.strip()],
                    "placed": sorted(int(x) for x in placed.split(",") if x.strip()),
                    "stop": stop,
                }
        return {
            "ok": ok, "output_tail": out[-1500:] if not ok else "", "generated": generated, "distinct": distinct,
            "depth": int(depth.group(1)) if depth else 0, "traces": traces,
            "config": {"N": n, "W": w, "Fail": sorted(fail), "Reraise": sorted(reraise)},
        }
    finally:
        shutil.rmtree(d, ignore_errors=True)


def completion_order(hist) -> tuple:
    return tuple(c % 10 for c in hist if c // 10 == 3)
