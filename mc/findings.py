"""Known-findings matching (known_findings.json is committed and never written at run time)."""
from __future__ import annotations

import json
from pathlib import Path

FILE = Path(__file__).resolve().parent.parent / "known_findings.json"


def load(prop: str) -> list[dict]:
    if not FILE.exists():
        return []
    data = json.loads(FILE.read_text())
    return [e for e in data.get("findings", []) if e.get("property") == prop]


def match(entries: list[dict], signature: dict) -> dict | None:
    """A 'known' entry matches when every key of its signature equals the violation's."""
    for e in entries:
        if e.get("status") != "known":
            continue
        sig = e.get("signature", {})
        if sig and all(signature.get(k) == v for k, v in sig.items()):
            return e
    return None
