"""E4: crash-point enumeration by real process death.

``run_child(fn, result_path)`` forks a child that runs ``fn()`` and writes its JSON-able return value to
``result_path``; if the code under test calls ``os._exit(code)`` (the injected crash) nothing is written and buffers
are not flushed - the process really dies.  The parent returns (exit status, result | None).
"""
from __future__ import annotations

import json
import os
import signal
import traceback
from typing import Any, Callable

CRASH_CODE = 17


def run_child(fn: Callable[[], Any], result_path: str, timeout: int = 300) -> tuple[int, Any]:
    if os.path.exists(result_path):
        os.remove(result_path)
    pid = os.fork()
    if pid == 0:
        code = 0
        try:
            signal.alarm(timeout)
            res = fn()
            tmp = result_path + ".tmp"
            with open(tmp, "w") as f:
                json.dump(res, f)
            os.replace(tmp, result_path)
        except BaseException:
            code = 3
            try:
                with open(result_path + ".err", "w") as f:
                    f.write(traceback.format_exc())
            except Exception:
                pass
        finally:
            os._exit(code)
    _, status = os.waitpid(pid, 0)
    code = os.WEXITSTATUS(status) if os.WIFEXITED(status) else -os.WTERMSIG(status)
    res = None
    if os.path.exists(result_path):
        with open(result_path) as f:
            res = json.load(f)
    elif os.path.exists(result_path + ".err"):
        with open(result_path + ".err") as f:
            res = {"__error__": f.read()}
        os.remove(result_path + ".err")
    return code, res
