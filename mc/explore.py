"""E1: explicit-state breadth-first search over real objects (level-synchronous, sharded over workers).

A *state* is the history that reaches it (a list of JSON-able operations whose first element names the
start state); the real object is rebuilt in the worker by replaying the history (``spec.build``) and
cloned per transition with ``spec.clone`` when the spec provides a safe one.

spec interface (a plain object / module):
    starts() -> list[op]                    start tokens
    build(hist) -> obj                      fresh real object (+ reference model) with ``hist`` replayed
    clone(obj) -> obj                       optional; else the object is rebuilt for every transition
    enabled(obj, hist) -> list[op]          finite menu, simplest first
    apply(obj, op) -> outcome|None          performs the operation on the real object; may raise Rejected
    check(obj, hist) -> list[(signature, message)]    invariants / agreement with the reference model
    canon(obj) -> hashable                  property-relevant state incl. hidden caches
    nontrivial(hist) -> bool                optional
"""
from __future__ import annotations

from typing import Any

from .core import Tally, digest, pmap_raw


class Rejected(Exception):
    """The operation is legitimately refused by the implementation (not a transition)."""


_SPEC = None


def _expand(hist: list) -> tuple:
    spec = _SPEC
    t = Tally()
    new = []
    clone = getattr(spec, "clone", None)
    base = spec.build(hist)
    ops = spec.enabled(base, hist)
    # invariants already broken in the parent state are attributed to the operation that broke them
    try:
        inherited = {sig.get("invariant") for sig, _ in spec.check(clone(base) if getattr(spec, "clone", None) else spec.build(hist), hist)}
    except Exception:
        inherited = set()
    for op in ops:
        h2 = hist + [op]
        obj = clone(base) if clone else spec.build(hist)
        try:
            outcome = spec.apply(obj, op)
        except Rejected as r:
            t.outcomes[f"rejected:{op[0]}:{str(r)[:60]}"] += 1
            continue
        t.transitions += 1
        t.traces += 1
        nt = spec.nontrivial(h2) if hasattr(spec, "nontrivial") else len(h2) > 2
        t.case(h2, nontrivial=nt, outcome=f"{op[0]}:{outcome}" if outcome is not None else str(op[0]), sample=h2 if len(h2) >= 3 else None)
        try:
            found = spec.check(obj, h2)
        except Exception as e:  # an oracle that cannot be evaluated is never a silent pass
            import traceback

            found = [({"invariant": "oracle-error", "op": op[0], "error": type(e).__name__}, traceback.format_exc())]
        for sig, msg in found:
            if sig.get("invariant") in inherited:
                t.count("inherited_violations")
                continue
            t.violation(sig, {"history": h2}, msg)
        new.append((digest(spec.canon(obj)), h2))
    return t, new


def bfs(spec: Any, depth: int, tally: Tally, jobs: int = 16) -> dict:
    """Explore every history of at most ``depth`` operations (after the start token)."""
    global _SPEC
    _SPEC = spec
    frontier = []
    seen = set()
    for s in spec.starts():
        h = [s]
        obj = spec.build(h)
        for sig, msg in spec.check(obj, h):
            tally.violation(sig, {"history": h}, msg)
        k = digest(spec.canon(obj))
        if k not in seen:
            seen.add(k)
            frontier.append(h)
    completed = 0
    per_level = []
    for d in range(depth):
        if not frontier:
            break
        results = pmap_raw(_expand, [(h,) for h in frontier], jobs=jobs, chunk=max(1, len(frontier) // (jobs * 8) or 1))
        nxt = []
        for t, new in results:
            tally.merge(t)
            for k, h2 in new:
                if k not in seen:
                    seen.add(k)
                    nxt.append(h2)
        per_level.append({"depth": d + 1, "expanded": len(frontier), "new_states": len(nxt)})
        frontier = nxt
        completed = d + 1
    tally.states += len(seen)
    return {"depth_completed": completed, "levels": per_level, "unexpanded_frontier": len(frontier)}
