---------------------------- MODULE WorkerPool ----------------------------
(* Model of gemseo.core.parallel_execution.callable_parallel_execution
   (CallableParallelExecution.execute + _execute_workers), at the granularity of its queue
   operations.  Bound to the code by mc/pool_model.py: every terminal value of the history
   variable `hist` is replayed on the real thread back-end under the cooperative scheduler,
   every completion order is forced on the real process back-end, and every trace observed
   by the schedule exploration of the real code must be a behaviour of this model.

   Event codes in hist: 10+i = main puts task i on the input queue (P),
                        20+i = a worker takes task i (T),
                        30+i = a worker puts the outcome of task i on the output queue (F),
                        40+i = main collects the outcome of task i (C).               *)
EXTENDS Naturals, Sequences, FiniteSets
CONSTANTS N, W, Fail, Reraise
ASSUME Fail \subseteq 1..N /\ Reraise \subseteq Fail
VARIABLES pc, nxt, qin, qout, ws, wt, placed, called, nout, stop, hist
vars == <<pc, nxt, qin, qout, ws, wt, placed, called, nout, stop, hist>>
NW == IF N < W THEN N ELSE W
Tasks == 1..N
Init == /\ pc = IF N = 0 THEN "collect" ELSE "fill"
        /\ nxt = 1
        /\ qin = <<>>
        /\ qout = <<>>
        /\ ws = [w \in 1..NW |-> "idle"]
        /\ wt = [w \in 1..NW |-> 0]
        /\ placed = {}
        /\ called = <<>>
        /\ nout = 0
        /\ stop = FALSE
        /\ hist = <<>>
Fill == /\ pc = "fill"
        /\ qin' = Append(qin, nxt)
        /\ hist' = Append(hist, 10 + nxt)
        /\ nxt' = nxt + 1
        /\ pc' = IF nxt = N THEN "collect" ELSE "fill"
        /\ UNCHANGED <<qout, ws, wt, placed, called, nout, stop>>
Take(w) == /\ ws[w] = "idle" /\ Len(qin) > 0
           /\ qin' = Tail(qin)
           /\ IF Head(qin) = 0
                 THEN /\ ws' = [ws EXCEPT ![w] = "exited"]
                      /\ UNCHANGED <<wt, hist>>
                 ELSE /\ ws' = [ws EXCEPT ![w] = "busy"]
                      /\ wt' = [wt EXCEPT ![w] = Head(qin)]
                      /\ hist' = Append(hist, 20 + Head(qin))
           /\ UNCHANGED <<pc, nxt, qout, placed, called, nout, stop>>
Finish(w) == /\ ws[w] = "busy"
             /\ qout' = Append(qout, wt[w])
             /\ hist' = Append(hist, 30 + wt[w])
             /\ ws' = [ws EXCEPT ![w] = "idle"]
             /\ UNCHANGED <<pc, nxt, qin, wt, placed, called, nout, stop>>
Collect == /\ pc = "collect" /\ nout < N /\ ~stop /\ Len(qout) > 0
           /\ LET i == Head(qout) IN
                /\ IF i \in Fail
                      THEN /\ stop' = (i \in Reraise)
                           /\ UNCHANGED <<placed, called>>
                      ELSE /\ placed' = placed \cup {i}
                           /\ called' = Append(called, i)
                           /\ UNCHANGED stop
                /\ hist' = Append(hist, 40 + i)
           /\ qout' = Tail(qout)
           /\ nout' = nout + 1
           /\ UNCHANGED <<pc, nxt, qin, ws, wt>>
EndCollect == /\ pc = "collect" /\ (nout = N \/ stop)
              /\ pc' = "join"
              /\ qin' = qin \o [k \in 1..NW |-> 0]
              /\ UNCHANGED <<nxt, qout, ws, wt, placed, called, nout, stop, hist>>
Join == /\ pc = "join" /\ \A w \in 1..NW : ws[w] = "exited"
        /\ pc' = "done"
        /\ UNCHANGED <<nxt, qin, qout, ws, wt, placed, called, nout, stop, hist>>
Done == /\ pc = "done" /\ UNCHANGED vars
Next == Fill \/ (\E w \in 1..NW : Take(w) \/ Finish(w)) \/ Collect \/ EndCollect \/ Join \/ Done
Spec == Init /\ [][Next]_vars
ExactlyOnce == \A i \in Tasks : Cardinality({k \in 1..Len(called) : called[k] = i}) <= 1
OnlySuccessful == \A k \in 1..Len(called) : called[k] \notin Fail
Positional == (pc = "done" /\ ~stop) => (placed = Tasks \ Fail /\ Len(called) = N - Cardinality(Fail))
RaisesIffReraise == (pc = "done") => (stop <=> (Reraise # {}))
=============================================================================
