#!/venv/bin/python
"""tools/cmp_baseline.py <junit.xml>: stable_pass tests of BASELINE.json that do not pass in the given run."""
import json, sys, xml.etree.ElementTree as ET
b = json.load(open('/root/.vp/BASELINE.json')); stable = set(b['stable_pass'])
res = {}
for tc in ET.parse(sys.argv[1]).getroot().iter('testcase'):
    name = tc.get('classname') + '::' + tc.get('name')
    bad = [c.tag for c in tc if c.tag in ('failure', 'error', 'skipped')]
    res[name] = 'pass' if not bad else bad[0]
missing = sorted(s for s in stable if res.get(s) != 'pass')
print(len(res), "tests,", sum(v == 'pass' for v in res.values()), "passed; stable_pass not passing:", len(missing))
for m in missing: print("  ", m, res.get(m))
