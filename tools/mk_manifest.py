#!/venv/bin/python
"""Regenerate MANIFEST.json from the table below (kept by hand) and validate it against the schema."""
import json
import sys
from pathlib import Path

ROOT = Path(__file__).resolve().parent.parent
sys.path.append(str(ROOT / "vendor"))

NOT_BUILT = "check not built yet at this commit (planned, see DESIGN.md section 5)"

CHECKS = {
    "C01": dict(
        engine="E1-bfs", category="model_checking",
        text="One BFS per (design-space layout x function kind x preprocessing switch vector) over call histories h.evaluate(p) / h.jac(p) for the objective and a constraint and evaluate_functions(p, design_vector_is_normalized=b) in value / Jacobian / both modes, on a real pre-processed OptimizationProblem: 7 layouts (bounded, one unbounded component, lb == ub, float+integer, integers only, size-2 + scalar, ParameterSpace), 5 function kinds (scalar quadratic, vector, dense and sparse MDOLinearFunction, csr Jacobian), switches normalized x database x store_jacobian x round_ints x differentiation {user, fd, cd, cs} x sparse support; after every step the returned value / Jacobian and the whole database (keys, order, names, physical Jacobians) are compared with a pure-Python reference model, and counters in the user's callables enforce at-most-once evaluation.",
        note="quick: depth 3, switch vectors with <= 2 non-default switches (reduced menu for exactly 2); thorough: depth 3 on the full switch product + depth 4 on a 9-operation core menu; dyadic 3-point value alphabet (4 alphabets by VERIF_SEED) so affine maps are exact; states merged on database content; the n_calls counter of ProblemFunction is rebound to an in-process counter and sibling transitions are restored from a snapshot, with a from-scratch confirmation of every violating history.",
        technique="explicit-state BFS over call histories of the real problem, reference model of physical point -> value / physical Jacobian, counters in the user's callables",
    ),
    "C02": dict(
        engine="E1-bfs", category="model_checking",
        text="Every history of at most 3 (quick) / 4 (thorough) public DesignSpace mutators and cache-filling queries (including calls the class must refuse) from 6 start spaces is executed on the real class; after every transition the view-consistency and normalization invariants I1-I7 are evaluated on a deep copy.  The implementation itself is the explored system, the reference model is the oracle (independent affine formulas).",
        note="Value alphabet: 7 variable definitions of sizes 1, 2 and 3 (3 tables rotated by VERIF_SEED), filter_dimensions with even, uneven and non-contiguous selections; at most 3 variables alive; depth bound as reported in the evidence; states are merged on a canonical form that includes the name-mangled caches.",
        technique="explicit-state BFS over operation histories of the real object (bounded depth), invariant checked in every state",
    ),
    "C03": dict(
        engine="E2-product", category="exploration",
        text="Deviation-bounded exhaustive enumeration of driver executions and 2-execution histories: all 21 optimization and 30 DOE algorithms of the factories x budget N in {1,2,3,5,12} x 10 problem classes (unconstrained, inequality, equality, NaN objective, NaN + constraint, raising constraint, linear, mixed-integer, MILP, bi-objective) with default settings, then <= 1 (quick) / <= 2 (thorough) deviations over normalize_design_space, use_database, round_ints, reset_iteration_counters, store_jacobian, differentiation, the stop criterion forced to fire first (budget, ftol, xtol, max_time under a virtual clock, KKT) and DOE-only axes (eval_jac, n_processes), then ordered pairs of executions on one problem with and without counter reset; counters inside the ORIGINAL callables record the distinct physical points really evaluated; per execution: new entries <= N, distinct points <= N, no exception for budget / tolerance / time / NaN stops, a result with a message; DOEs: keys = the distinct samples in generation order, each evaluated once, a failing sample only loses its own entry.",
        note="Third-party optimizers are black boxes (the check bounds what they may evaluate); 2-variable problems, 3 value tables by VERIF_SEED; unsuitable (algorithm, problem) pairs are refused by the libraries themselves and counted; composite algorithms are held to their documented per-level budgets; NLOPT_NEWUOA cases that stall inside nlopt after a callback exception are capped at 15 s CPU and reported as a cap; use_database=False and MultiStart(normalize_design_space=True) are registered known findings.",
        technique="deviation-bounded exhaustive enumeration of driver executions and execution pairs, counters in the user callables, virtual clock",
    ),
    "C04": dict(
        engine="E2-product", category="exploration",
        text="Exhaustive within bounds: every hand-written database of <= 2 points (<= 4 unconstrained) over the per-point alphabet (objective missing / values / tie / NaN; scalar and 2-component inequality missing / satisfied / exactly on the tolerance / just above / violated / NaN; equality likewise) x problem shape x tolerances x min/max x standardized or original reporting x gradient mode x scalar representation, every database of 3 (quick) / 3-4 (thorough) points over reduced alphabets, every <= 4x2 Pareto matrix over {0,1,2} x feasibility flags and every 2-objective database of <= 3 points; the reported optimum / result / Pareto front are compared with an independent transcription of the selection rule of the statement (plain Python, no gemseo code).",
        note="Finite value alphabet (4 alphabets rotated by VERIF_SEED); any tie winner is accepted; no minimality is demanded from or against partially evaluated or NaN-constraint points (the documented violation measure is undefined there: counted as outcome classes); Pareto completeness is not demanded.",
        technique="bounded-exhaustive enumeration of optimization databases against an independent transcription of the selection rule",
    ),
    "C09": dict(
        engine="E2-product", category="exploration",
        text="Every composition of 2 (all) / 3 (<= 2 reads, <= 1-2 writes) polynomial harness disciplines over a 4-name pool (closed under renaming, hence every sort order of the names) is built as every process kind that gives it a meaning (MDOChain, MDOParallelChain, MDOAdditiveChain, MDAChain, nestings) with dense / csr / operator Jacobians and sizes in {1,2}, and linearized through every singleton / full (thorough: every subset) request and two-request histories on the same process (subset->all, all->subset at a moved point, singleton pairs, re-execution after moving one input); every returned block is compared exactly with an independent forward accumulation of the exact partials.  Plus sharing histories: discipline instances shared with a second process (twin, reversed chain, parallel chain, sub-chain) that executes or linearizes at another point between two steps of the first one, a sub-discipline executed or linearized on its own between the process's execution and its linearization, and one instance at several positions of an MDOChain; every Jacobian returned by either process is compared with the chain rule at the requested point.",
        note="Integer value alphabet (3 tables by VERIF_SEED, 2 points) so comparisons are exact; request histories on renaming-class representatives; MDAChain on acyclic single-writer compositions; no operators under MDOAdditiveChain; thread-based kinds run free (their schedules are C13's subject).",
        technique="bounded-exhaustive product of structural axes, exact forward-accumulation oracle",
    ),
    "C05": dict(
        engine="E1-bfs", category="model_checking",
        text="(H) BFS over every history (depth 3/4; 2/3 for the shared-memory and HDF5 caches) of execute with fresh arrays / execute through caller arrays modified in place / execute through the input arrays found in the returned data, modified in place / defaults-only / a self-coupled output fed back as the next input / linearize(all|subset), also through the caller's reused arrays / reopen on harness disciplines with known ground truth and body-run counters (dense, sparse-Jacobian incl. empty trailing columns, self-coupled, self-coupled with a body updating its input in place, and finite-difference linearization whose perturbed points pass through the cache); every stored entry must hold the outputs and the Jacobian of its own inputs, for no cache, SimpleCache, MemoryFullCache (shared or not) and HDF5Cache (nested node), exact and tolerance-based; (S) every history of <= 3 operations over {execute(d), execute(1.07d), linearize(d), linearize(1.07d)} on every shipped discipline the factory builds without arguments, with a full and a simple cache, against an uncached twin running the same history; (K) every history of <= 3 (thorough 4) executions over 4 input forms of which 3 have identical bytes, hence equal hashes (flat, column, one complex number), on the exact-matching caches.",
        note="3 input values (one within the tolerance of another) + defaults, 3 alphabets rotated by VERIF_SEED; canonical state = cache entries + local data + Jacobian keys + differentiated I/O + the caller's reused arrays + run counters; large topology-optimization disciplines are limited to depth 1/2.",
        technique="explicit-state BFS over operation histories of real disciplines and caches, ground-truth / uncached-twin oracle in every state",
    ),
    "C06": dict(
        engine="E2-product", category="exploration",
        text="Deviation-bounded exhaustive enumeration over generated contractive coupled systems - every strongly connected labelled digraph on 2-3 disciplines x every self-loop subset for the plain solvers, every digraph with a coupling for MDAJacobi, all 16 / 512 digraphs (several SCCs, self-coupled, weakly coupled, acyclic) for MDAChain; sizes 1-2; linear, 0.3 sin, 0.2 tanh and small-gain quadratic maps with an asserted contraction constant q <= 0.5 - x MDA class (Jacobi, Gauss-Seidel, Newton-Raphson, quasi-Newton with 9 SciPy methods, GS-Newton, Sequential, MDAChain x 5 inner MDAs) x acceleration (6 methods) x over-relaxation {0.8, 1, 1.2} x 6 residual scalings x warm start x every listing permutation x serial / threads / processes x 3 input points x executed once and twice x user-given sub coupling structures for MDAChain x MDASequential sequences whose sub-MDAs have their own (looser / tighter) tolerances; oracles derived from q: re-executing every discipline on the returned data reproduces it, agreement with numpy.linalg.solve (or the harness's Banach iteration), all configurations agree through the common reference, and a run that does not report convergence where theory gives it is a violation.",
        note="quick: <= 1 deviation on n = 2, defaults on every labelled n = 3 graph, all permutations on class representatives, plus the acceleration x relaxation product; thorough: <= 2 deviations (n = 3 on isomorphism-class representatives); 4 value alphabets by VERIF_SEED; quasi-Newton runs are held to SciPy's documented stopping rules; reduced-budget phases are counted, nothing is claimed about their data; Aitken + relaxation is a registered known finding.",
        technique="deviation-bounded exhaustive enumeration of coupling graphs x MDA classes x setting vectors, closed-form / contraction-derived oracle",
    ),
    "C07": dict(
        engine="E2-product", category="exploration",
        text="Full product over 10 coupled systems (fully coupled, weakly coupled downstream / upstream, self-coupled, state equation solved inside a discipline or left to the MDA, and a state discipline outside every strongly coupled group: upstream, downstream, pure chain, state left to the MDA; unequal sizes, names sorting differently from production order) x mode {auto, direct, adjoint} x matrix type {sparse, sparse + LU, linear operator} x the 8 linear solvers accepting a non-symmetric system x every non-empty subset of inputs x every non-empty subset of outputs (couplings / states among them) x 2 points x 5 MDA kinds x Jacobian representation (dense, csr, operator) x partial or full fill, plus every ordered pair of requests on the SAME MDA object (discipline API and assembly API); oracle: dF/dx - dF/dy (dR/dy)^-1 dR/dx assembled densely by the harness and self-checked against a monolithic solve, with a tolerance derived from the solver tolerance and the conditioning.  Plus every history of 2-3 (thorough 3-4) linearizations of the same objects with cache tolerances {None, 0, 1e-2} (JacobianAssembly.total_derivatives) / lin_cache_tol_fact {0, 1e-2/tol} (mda.linearize) at the same, a neighbouring (1e-3) or a far point: every zero-tolerance step is compared with the closed form at its own point.",
        note="3 value alphabets by VERIF_SEED (kappa <= 3); conjugate gradients excluded (needs SPD); the quick tier runs the full solver product for one MDA kind and crosses the other axes at the default solver; steps run under a positive cache tolerance, and the first MDA-level step after the factor is reset, are the documented approximation and are not judged; the integer-coefficient dtype systems and the graphs with a weakly coupled state discipline are crossed with the GMRES-type solvers only (Lanczos-type solvers stagnate there); loud Lanczos-type solver breakdowns and the documented compute_all_jacobians weak-coupling error are accepted and counted.",
        technique="full product of structural axes and two-request histories, dense closed-form implicit-function oracle",
    ),
    "C08": dict(
        engine="E2-product", category="exploration",
        text="Exhaustive: every labelled digraph on n <= 3 nodes with self-loops and on 4 nodes (without self-loops quick, with thorough) x naming (distinct/duplicated) x I/O and edge-realisation variants is turned into disciplines; the execution sequence and the coupling sets are compared with an independent Warshall SCC/topology oracle; for n <= 3 MDAChain / MDOChain on affine contractive disciplines, in every listing order and with one setting deviation at a time, must equal the monolithic linear solve; initialization-chain ordering against an independent fixed point.  Plus an MDAChain settings axis {default, user-given sub_coupling_structures in execution order} over all <= 3-node graphs with a group needing an MDA and the weak / self-coupled / pair typings of all labelled 3-node template DAGs (4-6 nodes: weak groups before / between / after >= 2 MDAs) x listing orders, and a process-kind axis {MDOChain, MDOParallelChain threads / deep copy / 1 worker (/ processes), MDAChain with sequential / parallel stages} over <= 3 independent disciplines writing any subset of two shared output names (1-3 producers per name) x every listing order, last-producer-wins vs whole-system evaluation.",
        note="Structure exhaustive for all digraphs on <= 4 nodes; execution exhaustive for n <= 3 on one affine contractive value alphabet per seed with derived tolerances; not a proof for n > 4 (the statement's 'randomly beyond' is not done: sampling is another family).",
        technique="bounded-exhaustive enumeration of all labelled dependency digraphs, transitive-closure oracle and monolithic-solve oracle",
    ),
    "C10": dict(
        engine="E2-product", category="exploration",
        text="Every expression tree of depth <= 2 (thorough: depth 3 over a core alphabet) over 10 function leaves (scalar, m=n, m!=n, dense/sparse linear, quadratic), a number and an array with {+,-,*,/,neg,offset}, and every helper constructor (restriction with every frozen subset, linear composition, concatenation, normalize/restrict of linear functions, Taylor polynomials, convex linearization for approx_indexes in {None, every boolean mask: all-False, mixed, all-True} on separable and non-separable bases, the 6 aggregations x index groups x scalar/vector scale, the ConstraintAggregation discipline linearized with all Jacobians and with every non-empty subset of the inputs of every multi-input layout declared as differentiated inputs) is built with the real classes and evaluated/differentiated on a grid; value and Jacobian are compared with an independent dual-number evaluation of the same program within a derived rounding bound; operands must stay bitwise unchanged; KS bounds on the documented side.",
        note="Exhaustive in structure within the stated bounds, 4 value alphabets rotated by VERIF_SEED, float64 only (the 'symbolically for all real inputs' reading is not covered); mixed output dimensions and composites that raise on sparse-Jacobian operands are outside the alphabet; ConvexLinearApprox mismatches are split by footprint: entries with a reciprocal term fall under the registered known finding, all other entries are reported under their own signature.",
        technique="bounded-exhaustive enumeration of expression trees / helper constructions, forward-mode dual-number reference",
    ),
    "C11": dict(
        engine="E1-bfs+E2-product", category="model_checking",
        text="(H) BFS over every store/export history of depth <= 5 (quick) / 6 (thorough) of a real Database and its HDF file ({new point x output-subset menu, new output at an old point, append export, full export} x root/nested node; scalar, size-1, vector, matrix, list and empty values; float and integer points; names whose sort order differs from arrival order): every export is reloaded and compared with memory and with a single fresh export; (R) exhaustive products of DesignSpace HDF/CSV round trips, OptimizationProblem.to_hdf/from_hdf after short runs, HDF5Cache reopened on the same file/node.",
        note="Value alphabet fixed per (point position, name), 3 tables rotated by seed; states merged on content + pending set + file-tree digest; text format compared to the 16 significant digits it prints.",
        technique="explicit-state BFS over store/export histories of the real database and file; exhaustive round-trip products",
    ),
    "C14": dict(
        engine="E2-product", category="exploration",
        text="Full product over all 30 DOE algorithms of the factory x dimension {1,2,3,5} x bound layout (unit, asymmetric, negative, tiny, lb==ub) x types (float, integer, mixed) x size parameters x seed x entry point (compute_doe / execute); each configuration is executed 2-4 times on the real library (fresh instance, other initial value of the integer-normalization switch, same instance again, unit sampling) and a subset again in a fresh interpreter; exact oracles: inside the bounds, integrality, column order, counts, bitwise determinism, samples == untransform(unit samples), switch restored.",
        note="Bounds clause held for domain-filling algorithms only (OT_SOBOL_INDICES, OATDOE, circumscribed ccdesign are counted); library refusals are counted per algorithm, never silent; 3 bound tables rotated by VERIF_SEED; two known findings (1-2 ulp excess at the upper bound, OT_SOBOL_INDICES count in dimension 1).",
        technique="full product of configuration axes executed on the real library, exact oracles",
    ),
    "C15": dict(
        engine="E1-bfs", category="model_checking",
        text="Every history of at most 3 (quick) / 4 (thorough) grammar edits and read-only queries is executed on a real JSONGrammar, SimpleGrammar and PydanticGrammar in lock-step, from the empty grammar and (depth 1-3) from each of the 25 shipped JSON schemas and a PydanticGrammar on a user model; in every state: required/defaults within the elements, agreement with an independent reference definition and with the vendored jsonschema validator on json.loads(to_json()), JSON/Simple agreement, queries are no-ops (including the cached schema), copy/update/pickle independence.",
        note="3 names + rename target, 5 types, 5 value kinds (3 tables rotated by VERIF_SEED); followers are dropped at the first operation they do not share; canonical state includes the cached schema dict, validator presence and genson's required set; values on which JSON-schema drafts disagree are outside the alphabet.",
        technique="explicit-state BFS over operation histories of real grammar objects, reference-model and reference-validator oracles",
    ),
    "C16": dict(
        engine="E2-product", category="exploration",
        text="Full product of approximator {FirstOrderFD, CenteredDifferences, ComplexStep} x test function (polynomial / analytic with term-wise derivative bounds; m=n and m!=n) x point class (interior, zero components, on/near either bound) x step (scalars, per-component vector, at call or construction) x x_indices (default + every non-empty subset) x serial / process-parallel x design space (none, bounded, normalized), plus the discipline-level wrappers (linearize in the approximation modes, compute_approx_jac with every subset, check_jacobian with every indices form, which must accept the exact Jacobian and reject one wrong entry); oracle: shape, derived Taylor + rounding bound entry by entry, and a shared-memory log of every evaluation point against the upper bounds.  Plus function keyword arguments x serial / 2 processes x 3 approximators x histories of earlier f_gradient / compute_optimal_step calls on one instance (quick: up to one, thorough: up to two, including repeated compute_optimal_step), and Discipline.check_jacobian x auto_set_step x input_data {absent, defaults, off-default points, partial} x method x names x indices x {exact, one wrong entry}.",
        note="Values from three finite alphabets rotated by VERIF_SEED; centered differences within one step of a bound are held to the one-sided bound; only upper bounds are enforced (as the statement says); thread-parallel approximation is excluded by CallableParallelExecution's documented contract.",
        technique="full product of structural axes, analytic oracle with derived error bounds and evaluation-point log",
    ),
    "C17": dict(
        engine="E2-product", category="exploration",
        text="Bounded-exhaustive product of coupled harness systems (9 coupling graphs on 2-3 disciplines, unequal sizes, shared and local design variables; affine, nonlinear contractive, declared-linear, parameter-input and unbounded-coupling variants) x objective / constraint provider taken from every discipline in turn x every order of the design-space variables (all 24 orders of <= 4 variables; covering set / all 120 orders of 5) x formulation variants (IDF with and without constraint normalization, MDF with Jacobi / Gauss-Seidel / Newton inner MDAs, DisciplinaryOpt on weakly coupled systems) x 3 design points; oracle: closed-form coupled solution y*(x) and dy*/dx - MDF values equal IDF values at (x, y*(x)), IDF consistency constraints vanish there and equal the scaled F - y elsewhere, MDF total derivatives equal the chain-rule expression, design-space contents; thorough adds SLSQP on MDF / IDF / DisciplinaryOpt reaching the same optimum on convex members.",
        note="Complete over the stated structural product; the quick tier is a stated sub-product (full formulation product on covering orders only); 3 value alphabets by VERIF_SEED; derived tolerances (MDA tolerance x conditioning); not a proof over real inputs.",
        technique="bounded-exhaustive product of coupled systems x variable orders x formulation variants, closed-form coupled-solution oracle",
    ),
    "C18": dict(
        engine="E2-product", category="exploration",
        text="Full product of every RegressorFactory class implementing predict_jacobian x its discrete settings (all RBF kernels x epsilon, polynomial degrees and penalties, PCE, MOE, regressor chains, GP) x input/output transformer pipelines (length <= 2) x 3/4 learning sets x 8 query points, plus transformer pipelines alone and by-name surrogate disciplines, executed on the real classes; Jacobians are compared with Richardson-extrapolated differences of the model's own predict within an a-posteriori error estimate; interpolation, inverse-transform identities and bitwise SurrogateDiscipline equality are checked.",
        note="Structural axes complete within the stated bounds (quick: <= 1 transformed group + diagonal; thorough: 376 input/output pairs); value alphabet = 3 tables rotated by VERIF_SEED; cases whose reference error estimate exceeds 1e-5 x derivative scale are counted as reference-unreliable; the PCE gradient is accepted to 1e-5 relative (OpenTURNS accuracy).",
        technique="full product of configuration axes, derivative-vs-own-prediction oracle with a-posteriori error estimate",
    ),
    "C19": dict(
        engine="E2-product", category="exploration",
        text="Full product of all 19 DistributionFactory classes (SciPy and OpenTURNS versions, generic wrappers, truncated / transformed / Dirac, joint distributions of every ordered pair and a Gaussian copula) x parameter alphabets x probabilities {0.01..0.99}; every (family, parameters) wrapped by both libraries compared directly; parameter spaces: all 8 arrival orders of <= 2 random and <= 1 deterministic variables x variable alphabets x 3 construction paths (transform identities, deterministic variables on the affine design-space map including gradients); statistics estimators through their deterministic consequences; closed-form reference laws with derived tolerances.",
        note="Numeric properties are checked on a finite value alphabet (3 affine images by seed); statistical statements only through deterministic consequences (no hypothesis test: sampling is another family); accuracy of the interfaced libraries on singular densities is out of scope.",
        technique="full product of classes x parameter alphabets x modifiers x parameter-space shapes, closed-form oracle",
    ),
    "C20": dict(
        engine="E1-bfs", category="model_checking",
        text="Every word of length <= 3 (thorough <= 4) over {execute(v1), execute(v2), linearize(v1), pickle round-trip, to_pickle/from_pickle} on 57 of the 62 classes of the discipline and MDA factories (constructor recipes in the module; the 5 classes needing Excel, a job scheduler or an executable are listed as not built) x grammar type x cache type, on 27 MDOFunction trees, design / parameter spaces, optimization problems at 4 life stages and 7 MDO/DOE scenarios; after a round-trip the history continues on both the original and the restored twin: same grammars, defaults, settings, outputs, Jacobians, optimization results and counters, an aliasing walk over the two object graphs (reported allow-list), mutation isolation, file-backed caches stay attached to their file.",
        note="Value alphabet = 3 scaled / shifted default inputs per seed; reduced word sets for HDF5 and non-default grammar / cache pairs in the quick tier (bounds in the evidence); iterative processes may be compared within their tolerance (in practice bitwise).",
        technique="exhaustive enumeration of life-cycle histories on the real classes with restored twins, differential oracle + object-graph aliasing walk",
    ),
    "C12": dict(
        engine="E4-crash", category="fault_enumeration",
        text="For every configuration (MDO DisciplinaryOpt with SLSQP and with COBYLA, MDO MDF with SLSQP, MDO IDF with an observable, DOE full-factorial / custom samples on one discipline, on an MDF system and with an array-valued objective + scalar constraint) x backup at each function call / each iteration x normalized or not x counter kept or reset, an uninterrupted reference run is logged; then the process is really killed (os._exit) inside EVERY discipline execution k = 1..K of the run, the backup file is loaded and compared with the reference snapshot taken at the last backup event before execution k, a fresh process restarts with load=True and is checked for rework, kept entries, optimum and (exact-replay configurations) equality with the uninterrupted history; for small runs every second crash point of the restart is enumerated too (file already containing earlier data).",
        note="Crash = process death inside a discipline execution (no HDF5 write in progress); torn HDF5 writes are not enumerated; a re-execution at a backed-up point is accepted when it adds an output the backup lacked there; MDF histories are compared within the MDA tolerance; two registered known findings (counter reset on restart, observable never computed at a loaded partial point).",
        technique="exhaustive crash-point enumeration by real process death (fork per crash point), reference-log oracle",
    ),
    "C13": dict(
        engine="E3-sched+E5-tlc", category="model_checking",
        text="(A) every schedule - all of them for N<=2 tasks on one worker, deviation-bounded otherwise - of the real thread back-end of CallableParallelExecution under a cooperative scheduler that owns every queue/thread/lock operation, for task counts 0-3(4), worker counts 1-3, all failing subsets and re-raise settings, with the positional / exactly-once / confinement oracle; (M) TLC enumerates the complete state graph of models/WorkerPool.tla per configuration, every terminal behaviour is replayed on the real thread back-end by guided scheduling and every completion order is forced on the real process back-end through gates; every trace the code produces must be a model behaviour and for the completely explored configurations the two trace sets must be equal; (B) under all schedules with <= d deviations: MDOParallelChain vs MDOChain (data and Jacobians), MDOParallelChain(use_deep_copy=True) with a discipline modifying its own copy of the inputs in place, DiscParallelExecution / DiscParallelLinearization with failing disciplines (positional slots), two disciplines sharing a MemoryFullCache under parallel execution and under parallel linearization (virtual re-entrant lock = scheduling points; every entry must hold the outputs and the Jacobian of its own inputs); under every forced completion order of the process back-end: parallel finite differences vs serial, parallel DOE vs sequential DOE (database, and what the user callbacks receive, with and without eval_jac, with failing samples); (B8) every history of <= 2 (thorough 3) f_gradient / compute_optimal_step calls with changing keyword arguments and component selections on the three gradient approximators, process-parallel twin vs sequential twin; (B9) every history of <= 2 (3) executions with an optional input given or omitted on DiscParallelExecution and MDOParallelChain, threads and processes: returned data and the disciplines' own data vs sequential twins.",
        note="Scheduling points are queue, thread and lock operations (plain attribute accesses between them are not interleaved); the process back-end is covered through forced completion orders, not OS-level interleavings; deviation bounds and TLC state counts are reported in the evidence.",
        technique="stateless schedule exploration of the real code under a controlled scheduler + TLC explicit-state model checking with every model behaviour replayed on the implementation",
    ),
}

ENGINES = [
    {"name": "E1-bfs", "path": "mc/explore.py", "kind_free_text": "explicit-state breadth-first search over real objects; state = operation history, canonical form includes hidden caches; level-synchronous, sharded over 16 fork workers"},
    {"name": "E2-product", "path": "mc/product.py", "kind_free_text": "complete products / deviation-bounded enumerations of configuration axes, sharded over fork workers (mc/core.py pmap)"},
    {"name": "E3-sched", "path": "mc/sched.py", "kind_free_text": "cooperative scheduler for real Python threads (fake queue/threading modules, virtual re-entrant locks), stateless deviation-bounded DFS over schedules, guided replay of model traces"},
    {"name": "E4-crash", "path": "mc/crash.py", "kind_free_text": "fork-per-crash-point driver: the k-th discipline execution kills the process, the backup is inspected and the restart observed"},
    {"name": "E5-tlc", "path": "mc/pool_model.py", "kind_free_text": "TLC on models/WorkerPool.tla; all terminal behaviours extracted from the state dump and replayed on the implementation"},
]


def main():
    props = [json.loads(l) for l in (ROOT / "properties.jsonl").read_text().splitlines() if l.strip()]
    checks = []
    for pid, c in CHECKS.items():
        checks.append({
            "property_id": pid,
            "quick_cmd": f"./check {pid} --tier quick",
            "thorough_cmd": f"./check {pid} --tier thorough",
            "evidence_file": f"/verif/evidence/{pid}.json",
            "replay_cmd_template": f"./check {pid} --replay {{path}}",
            "engine": c["engine"],
            "level_claimed": {"category": c["category"], "text": c["text"], "design_ref": f"DESIGN.md section 5, {pid}"},
            "level_note": c["note"],
            "technique": c["technique"],
        })
    engines = []
    for e in ENGINES:
        served = [pid for pid, c in CHECKS.items() if e["name"].split("-")[0] in c["engine"]]
        if e["name"] in ("E4-crash",) and not (ROOT / e["path"]).exists():
            continue
        engines.append({**e, "serves_properties": served})
    man = {
        "version": 1,
        "setup_cmd": "./setup.sh",
        "hooks": {
            "guard": "GEMSEO_VERIF",
            "enable": "no source hooks are needed: the checks import gemseo from /repo/src (editable install) in a fresh process and reach every seam from outside (module-level names queue/th/time, instance locks, user callables); ./check exports GEMSEO_VERIF=1 for symmetry",
            "baseline_off_cmd": "cd /repo && env -u GEMSEO_VERIF /venv/bin/python -m pytest -ra -q -p no:cacheprovider --timeout=900 --continue-on-collection-errors",
            "source_commits": [],
            "add_only": True,
        },
        "engines": engines,
        "checks": checks,
        "notes": "See DESIGN.md.  known_findings.json lists fixed defects (fix: commits in /repo) and recorded findings.",
        "not_applicable": [{"property_id": p["id"], "reason": NOT_BUILT} for p in props if p["id"] not in CHECKS],
    }
    (ROOT / "MANIFEST.json").write_text(json.dumps(man, indent=1) + "\n")
    import jsonschema

    jsonschema.validate(man, json.loads(Path("/root/.vp/MANIFEST.schema.json").read_text()))
    print("MANIFEST.json ok:", len(checks), "checks,", len(man["not_applicable"]), "not claimed")


if __name__ == "__main__":
    main()
