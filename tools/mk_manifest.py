#!/venv/bin/python
"""Regenerate MANIFEST.json from the table below (kept by hand) and validate it against the schema."""
import json
import sys
from pathlib import Path

ROOT = Path(__file__).resolve().parent.parent
sys.path.append(str(ROOT / "vendor"))

NOT_BUILT = "check not built yet at this commit (planned, see DESIGN.md section 5)"

CHECKS = {
    "C02": dict(
        engine="E1-bfs", category="model_checking",
        text="Every history of at most 3 (quick) / 4 (thorough) public DesignSpace mutators and cache-filling queries from 5 start spaces is executed on the real class; after every transition the view-consistency and normalization invariants I1-I7 are evaluated on a deep copy.  The implementation itself is the explored system, the reference model is the oracle (independent affine formulas).",
        note="Value alphabet: 6 variable definitions (3 tables rotated by VERIF_SEED); at most 3 variables alive; depth bound as reported in the evidence; states are merged on a canonical form that includes the name-mangled caches.",
        technique="explicit-state BFS over operation histories of the real object (bounded depth), invariant checked in every state",
    ),
    "C12": dict(
        engine="E4-crash", category="fault_enumeration",
        text="For every configuration (MDO DisciplinaryOpt with SLSQP and with COBYLA, MDO MDF with SLSQP, DOE full-factorial / custom samples on one discipline and on an MDF system) x backup at each function call / each iteration x normalized or not x counter kept or reset, an uninterrupted reference run is logged; then the process is really killed (os._exit) inside EVERY discipline execution k = 1..K of the run, the backup file is loaded and compared with the reference snapshot taken at the last backup event before execution k, a fresh process restarts with load=True and is checked for rework, kept entries, optimum and (exact-replay configurations) equality with the uninterrupted history; for small runs every second crash point of the restart is enumerated too (file already containing earlier data).",
        note="Crash = process death inside a discipline execution (no HDF5 write in progress); torn HDF5 writes are not enumerated; a re-execution at a backed-up point is accepted when it adds an output the backup lacked there; MDF histories are compared within the MDA tolerance.",
        technique="exhaustive crash-point enumeration by real process death (fork per crash point), reference-log oracle",
    ),
    "C13": dict(
        engine="E3-sched+E5-tlc", category="model_checking",
        text="(A) every schedule - all of them for N<=2 tasks on one worker, deviation-bounded otherwise - of the real thread back-end of CallableParallelExecution under a cooperative scheduler that owns every queue/thread/lock operation, for task counts 0-3(4), worker counts 1-3, all failing subsets and re-raise settings, with the positional / exactly-once / confinement oracle; (M) TLC enumerates the complete state graph of models/WorkerPool.tla per configuration, every terminal behaviour is replayed on the real thread back-end by guided scheduling and every completion order is forced on the real process back-end through gates; every trace the code produces must be a model behaviour and for the completely explored configurations the two trace sets must be equal; (B) MDOParallelChain, DiscParallelExecution/Linearization with failing disciplines, two disciplines sharing a MemoryFullCache (virtual lock) under all schedules with <= d deviations, parallel finite differences and parallel DOE under every forced completion order, against their sequential twins.",
        note="Scheduling points are queue, thread and lock operations (plain attribute accesses between them are not interleaved); the process back-end is covered through forced completion orders, not OS-level interleavings; deviation bounds and TLC state counts are reported in the evidence.",
        technique="stateless schedule exploration of the real code under a controlled scheduler + TLC explicit-state model checking with every model behaviour replayed on the implementation",
    ),
}

ENGINES = [
    {"name": "E1-bfs", "path": "mc/explore.py", "kind_free_text": "explicit-state breadth-first search over real objects; state = operation history, canonical form includes hidden caches; level-synchronous, sharded over 16 fork workers"},
    {"name": "E2-product", "path": "mc/product.py", "kind_free_text": "complete products / deviation-bounded enumerations of configuration axes, sharded over fork workers (mc/core.py pmap)"},
    {"name": "E3-sched", "path": "mc/sched.py", "kind_free_text": "cooperative scheduler for real Python threads (fake queue/threading modules, virtual re-entrant locks), stateless deviation-bounded DFS over schedules, guided replay of model traces"},
    {"name": "E4-crash", "path": "mc/crash.py", "kind_free_text": "fork-per-crash-point driver: the k-th discipline execution kills the process, the backup is inspected and the restart observed"},
    {"name": "E5-tlc", "path": "mc/pool_model.py", "kind_free_text": "TLC on models/WorkerPool.tla; all terminal behaviours extracted from the state dump and replayed on the implementation"},
]


def main():
    props = [json.loads(l) for l in (ROOT / "properties.jsonl").read_text().splitlines() if l.strip()]
    checks = []
    for pid, c in CHECKS.items():
        checks.append({
            "property_id": pid,
            "quick_cmd": f"./check {pid} --tier quick",
            "thorough_cmd": f"./check {pid} --tier thorough",
            "evidence_file": f"/verif/evidence/{pid}.json",
            "replay_cmd_template": f"./check {pid} --replay {{path}}",
            "engine": c["engine"],
            "level_claimed": {"category": c["category"], "text": c["text"], "design_ref": f"DESIGN.md section 5, {pid}"},
            "level_note": c["note"],
            "technique": c["technique"],
        })
    engines = []
    for e in ENGINES:
        served = [pid for pid, c in CHECKS.items() if e["name"].split("-")[0] in c["engine"]]
        if e["name"] in ("E4-crash",) and not (ROOT / e["path"]).exists():
            continue
        engines.append({**e, "serves_properties": served})
    man = {
        "version": 1,
        "setup_cmd": "./setup.sh",
        "hooks": {
            "guard": "GEMSEO_VERIF",
            "enable": "no source hooks are needed: the checks import gemseo from /repo/src (editable install) in a fresh process and reach every seam from outside (module-level names queue/th/time, instance locks, user callables); ./check exports GEMSEO_VERIF=1 for symmetry",
            "baseline_off_cmd": "cd /repo && env -u GEMSEO_VERIF /venv/bin/python -m pytest -ra -q -p no:cacheprovider --timeout=900 --continue-on-collection-errors",
            "source_commits": [],
            "add_only": True,
        },
        "engines": engines,
        "checks": checks,
        "notes": "See DESIGN.md.  known_findings.json lists fixed defects (fix: commits in /repo) and recorded findings.",
        "not_applicable": [{"property_id": p["id"], "reason": NOT_BUILT} for p in props if p["id"] not in CHECKS],
    }
    (ROOT / "MANIFEST.json").write_text(json.dumps(man, indent=1) + "\n")
    import jsonschema

    jsonschema.validate(man, json.loads(Path("/root/.vp/MANIFEST.schema.json").read_text()))
    print("MANIFEST.json ok:", len(checks), "checks,", len(man["not_applicable"]), "not claimed")


if __name__ == "__main__":
    main()
