#!/bin/bash
# tools/try_seed.sh <seed dir containing patch.diff demo.py> <CHECK> [more checks]   (env TIER=quick|thorough, JOBS=16)
# Applies the patch in a scratch worktree of /repo, runs the demo with/without it, runs the checks against it, removes the worktree.
d=$(readlink -f "$1"); shift
wt=/tmp/wt_seed_$$
git -C /repo worktree add -q $wt HEAD || exit 2
trap 'git -C /repo worktree remove --force '$wt' >/dev/null 2>&1' EXIT
echo "== demo without the change:"; (cd $wt && PYTHONPATH=$wt/src timeout 600 /venv/bin/python $d/demo.py >/dev/null 2>&1; echo "exit $?")
if ! git -C $wt apply $d/patch.diff; then echo "PATCH DOES NOT APPLY"; exit 3; fi
echo "== demo with the change:"; (cd $wt && PYTHONPATH=$wt/src timeout 600 /venv/bin/python $d/demo.py 2>&1 | tail -3; echo "exit ${PIPESTATUS[0]}")
if [ -n "$TESTS" ]; then
  echo "== repository tests with the change ($TESTS):"
  (cd $wt && PYTHONPATH=$wt/src timeout 3000 /venv/bin/python -m pytest -q -p no:cacheprovider $TESTS -q 2>&1 | grep -v "^WARNING conda" | tail -3)
fi
for c in "$@"; do
  echo "== check $c (tier ${TIER:-quick}) against the change:"
  (cd /verif && VERIF_EVIDENCE_DIR=/dev/shm/seed_evidence VERIF_REPO_SRC=$wt/src timeout -s KILL 3000 ./check $c --tier ${TIER:-quick} --jobs ${JOBS:-16} 2>&1 | grep -v "^WARNING conda" > /dev/shm/try_seed_$c.log; grep -v "^WARNING conda" /dev/shm/try_seed_$c.log | grep "^VIOLATION\|^  signature\|^$c tier\|KNOWN\|Error\|error" | cut -c1-260 | head -14)
done
