#!/venv/bin/python
"""tools/keep_seed.py <src dir> <seed id> <property> '<json: detected_by, tests_confirmed, notes>' : store a confirmed seeded change under /verif/seeded/<id>/"""
import json, shutil, sys
from pathlib import Path
src, sid, prop, extra = Path(sys.argv[1]), sys.argv[2], sys.argv[3], json.loads(sys.argv[4])
dst = Path("/verif/seeded") / sid
dst.mkdir(parents=True, exist_ok=True)
for f in ("patch.diff", "demo.py"):
    shutil.copy(src / f, dst / f)
meta = json.loads((src / "meta.json").read_text()) if (src / "meta.json").exists() else {}
meta["property"] = prop
meta["confirmed_by_lead"] = extra
(dst / "meta.json").write_text(json.dumps(meta, indent=1) + "\n")
print("kept", dst)
