#!/bin/bash
# tools/apply_fix.sh <slug>  : apply notes/fixes/<slug>.diff to /repo and commit it with notes/fixes/<slug>.msg
set -e
slug=$1
cd /repo
git apply --check --include="src/*" /verif/notes/fixes/$slug.diff
git apply --include="src/*" /verif/notes/fixes/$slug.diff
git add -A
git commit -q -F /verif/notes/fixes/$slug.msg
git log --oneline | head -1
